"""./check setup: build every simulator offline from files on disk."""
import os
import subprocess
from vlib import *


def main():
    os.makedirs(WORK, exist_ok=True)
    for profile in ("dev", "release"):
        _, dt = cargo_build("vecsim", profile)
        log("setup: vecsim %s built in %.1fs" % (profile, dt))
    import simr
    for profile in ("dev", "release"):
        _, dt = simr.build(profile, DEFAULT_SEED, "quick")
        log("setup: recsim %s built in %.1fs" % (profile, dt))
    for pkg in ("simgen", "thrsim"):
        with BuildLock():
            run(["cargo", "build", "--offline", "-p", pkg], cwd=SIM, env=cargo_env())
        log("setup: %s built" % pkg)
    # warm the Miri build (sysroot is pre-built in the image)
    env = cargo_env()
    env["CARGO_TARGET_DIR"] = os.path.join(TARGET, "miri")
    env["MIRIFLAGS"] = "-Zmiri-ignore-leaks"
    with BuildLock():
        p = subprocess.run(["cargo", "+nightly", "miri", "run", "--offline", "-q", "-p", "vecsim", "--", "catalogue"], cwd=SIM, env=env,
                           stdout=subprocess.PIPE, stderr=subprocess.STDOUT, text=True)
    log("setup: miri warm-up rc=%d" % p.returncode)
    if p.returncode != 0:
        log(p.stdout[-2000:])
        return EXIT_HARNESS
    env.update(simr.build_env(DEFAULT_SEED, "quick"))
    with BuildLock():
        p = subprocess.run(["cargo", "+nightly", "miri", "run", "--offline", "-q", "-p", "recsim", "--", "batch", "--seed", "0", "--count", "0"], cwd=SIM, env=env,
                           stdout=subprocess.PIPE, stderr=subprocess.STDOUT, text=True)
    log("setup: miri warm-up of recsim rc=%d" % p.returncode)
    if p.returncode != 0:
        log(p.stdout[-2000:])
        return EXIT_HARNESS
    return EXIT_OK
