"""SIM-R: record life-cycle simulator driver (C04, C05, C06, C07, C15, C16)."""
import copy
import json
import os
import subprocess
import tempfile
import time

from vlib import *

PROPS = ("C04", "C05", "C06", "C07", "C15", "C16")

# which arms a property's check runs: (fault-free share, fault share)
ARMS = {"C04": (0.8, 0.2), "C05": (0.8, 0.2), "C06": (0.4, 0.6), "C07": (0.5, 0.5), "C15": (0.3, 0.7), "C16": (0.4, 0.6)}

TIERS = {
    # swarm definitions, capacities per definition, histories per profile, miri histories
    # optimised builds are expensive per definition, unoptimised ones cheap: the dev arm sweeps many more
    # definitions (one capacity each), the release / hooks / Miri arms the corpus plus a smaller swarm
    "quick": dict(swarm=12, caps=2, swarm_dev=150, caps_dev=1, runs=40000, miri=64, miri_defs=8, miri_tour_defs=4),
    "thorough": dict(swarm=85, caps=2, swarm_dev=400, caps_dev=1, runs=2000000, miri=1200, miri_defs=24, miri_tour_defs=32),
}

# histories with sweeps (every fault position of a stream / of a record's clone) cost about ten times more
RUNS_SCALE = {"C15": 0.3, "C16": 0.6}

LEVEL = {"C04": "exploration", "C05": "exploration", "C06": "exploration", "C07": "exploration", "C15": "fault_enumeration", "C16": "fault_enumeration"}

REAL = ["truc NativeRecordDefinitionBuilder + the four shipped closing strategies (run in the simulator's build script)",
        "truc generate() with the common fragments and the optional Clone / Serde fragments", "rustc (dev and release profiles)",
        "the generated modules, verbatim", "truc_runtime::data", "truc_runtime::convert", "serde_json", "bincode"]
STUBS = ["field value types (ledger tokens, heap owners, plain data, zero-size types) with fault-plan aware Clone / Serialize / Deserialize",
         "Read / Write objects (short transfers, EINTR, error at byte k, early EOF) and stream mutations (truncation, bit flip, extra / missing / wrongly typed element)",
         "scripted converter of vector conversions", "global allocator wrapper (accounting only)",
         "glue module per definition, emitted from the RecordDefinition without offsets"]

# which properties a crash (signal / abort) during an operation counts against
CRASH_PROPS = {
    "new": ["C04", "C07"], "new_uninit": ["C04", "C07"], "get": ["C04", "C07"], "set": ["C04", "C07"], "mutate": ["C04", "C07"], "move": ["C04", "C07"],
    "unpack": ["C04", "C06", "C07"], "drop": ["C06", "C07"], "convert": ["C05", "C07"], "chain": ["C05", "C07"], "vec_convert": ["C05", "C06", "C07"],
    "clone": ["C16", "C07"], "clone_from": ["C16", "C07"], "encode": ["C15", "C07"], "decode": ["C15", "C07"], "end-of-history": ["C06", "C07"],
    "drop_panic": ["C06", "C07"],
}


def build_env(seed, tier, profile="release"):
    t = TIERS[tier]
    if profile == "dev":
        return {"RECSIM_SEED": str(seed), "RECSIM_SWARM": str(t["swarm_dev"]), "RECSIM_CAPS": str(t["caps_dev"]), "RECSIM_CORPUS": "1"}
    return {"RECSIM_SEED": str(seed), "RECSIM_SWARM": str(t["swarm"]), "RECSIM_CAPS": str(t["caps"]), "RECSIM_CORPUS": "1"}


HOOK_PROPS = ("C06", "C07")
HOOK_CFG = "--cfg truc_verif_hooks"


def build(profile, seed, tier, miri=False, plans=None):
    env = cargo_env()
    env.update(build_env(seed, tier, profile))
    hooks = profile == "hooks"
    if hooks:
        # the guarded instrumentation of truc_runtime::data (off in every other arm)
        env["RUSTFLAGS"] = HOOK_CFG
        env["CARGO_TARGET_DIR"] = os.path.join(TARGET, "hooks")
        profile = "dev"
    if plans:
        env["RECSIM_PLANS"] = plans
    cmd = ["cargo", "build", "--offline", "-p", "recsim"]
    if profile == "release":
        cmd.append("--release")
    import re
    excluded = []
    dt = 0.0
    for attempt in range(4):
        if excluded:
            env["RECSIM_EXCLUDE"] = ",".join(str(i) for i in sorted(set(excluded)))
        with BuildLock():
            t0 = time.time()
            p = subprocess.run(cmd, cwd=SIM, env=env, stdout=subprocess.PIPE, stderr=subprocess.STDOUT, text=True)
            dt += time.time() - t0
        if p.returncode == 0:
            break
        # a generated module that does not compile is a pipeline failure of that definition (C13 is not
        # decided here): leave the offending definitions out and build again
        bad = set()
        for block in re.split(r"\n(?=error)", p.stdout):
            if block.startswith("error"):
                for m in re.finditer(r"/out/def_(\d+)\.rs", block):
                    bad.add(int(m.group(1)))
        bad -= set(excluded)
        if not bad or attempt == 3:
            raise HarnessError("recsim %s build failed:\n%s" % (profile, p.stdout[-6000:]))
        excluded += sorted(bad)
        log("note: generated modules of %d definitions do not compile and are left out of the %s arm: def indices %s" % (len(bad), profile, sorted(bad)))
    src = os.path.join(env["CARGO_TARGET_DIR"], "release" if profile == "release" else "debug", "recsim")
    # keep a private copy: another check may rebuild the shared binary with other definitions
    return src, dt


def op_name(op):
    if isinstance(op, dict):
        k = next(iter(op))
        if k == "New":
            return "new_uninit" if op[k].get("uninit") else "new"
        return {"Get": "get", "Set": "set", "Mutate": "mutate", "Move": "move", "Convert": "convert", "Chain": "chain", "Unpack": "unpack", "Drop": "drop",
                "Clone": "clone", "CloneFrom": "clone_from", "Encode": "encode", "Decode": "decode", "VecConvert": "vec_convert",
                "DecodeSweep": "decode", "DropPanic": "drop_panic"}.get(k) or ("clone_from" if op[k].get("from") else "clone")
    return str(op)


def eval_case(binary, case, timeout=120):
    os.makedirs(WORK, exist_ok=True)
    with tempfile.NamedTemporaryFile("w", suffix=".json", dir=WORK, delete=False) as f:
        json.dump(case, f)
        path = f.name
    try:
        p = subprocess.run([binary, "case", "--file", path], stdout=subprocess.PIPE, stderr=subprocess.PIPE, text=True, errors="replace", timeout=timeout)
    except subprocess.TimeoutExpired:
        os.unlink(path)
        return "crash", [dict(property="?", clause="hang", message="timeout", step=len(case["ops"]), op="?")]
    os.unlink(path)
    if p.returncode in (0, 1):
        try:
            rep = json.loads(p.stdout.strip().splitlines()[-1])
            return ("violation" if rep["violations"] else "ok"), rep["violations"]
        except (ValueError, IndexError):
            pass
    if p.returncode == 2:
        raise HarnessError("recsim rejected a case: " + p.stderr[-500:])
    last = op_name(case["ops"][-1]) if case["ops"] else "end-of-history"
    return "crash", [dict(property="?", clause="crash", message="simulator process died (rc=%s) %s" % (p.returncode, p.stderr.strip()[-300:]), step=len(case["ops"]) - 1, op=last)]


def simpler_cases(case):
    ops = case["ops"]
    n = len(ops)
    # drop halves, then single operations (from the end: later operations are less likely to matter)
    if n >= 4:
        for lo, hi in ((n // 2, n), (0, n // 2)):
            c = copy.deepcopy(case)
            del c["ops"][lo:hi]
            yield c
    for i in reversed(range(n)):
        c = copy.deepcopy(case)
        del c["ops"][i]
        yield c
    if case["cfg"]["faults"]:
        c = copy.deepcopy(case)
        c["cfg"]["faults"] = False
        yield c
    for i, op in enumerate(ops):
        k = next(iter(op))
        body = op[k]
        # simpler parameters
        for field, simple in (("place", 0), ("panic_at", 0), ("enc_fail_at", 0), ("de_fail_at", 0), ("stack", False), ("uninit", False), ("spare", 0), ("mutation", "None"), ("via_from", False), ("take_world", False)):
            if field in body and body[field] != simple:
                c = copy.deepcopy(case)
                c["ops"][i][k][field] = simple
                yield c
        if "io" in body and body["io"] != {"chunk": 0, "eintr_every": 0, "err_at": 65535, "eof_at": 65535}:
            c = copy.deepcopy(case)
            c["ops"][i][k]["io"] = {"chunk": 0, "eintr_every": 0, "err_at": 65535, "eof_at": 65535}
            yield c
        if k == "VecConvert" and body["n"] % 7 > 1:
            c = copy.deepcopy(case)
            c["ops"][i][k]["n"] = body["n"] % 7 - 1
            yield c
        if k == "Chain":
            c = copy.deepcopy(case)
            c["ops"][i] = {"Convert": {"r": body["r"], "form": body["forms"] & 3}}
            yield c


def same_failure(status, viols, clause):
    if clause.endswith("crash"):
        return status == "crash"
    return status == "violation" and any(v["clause"] == clause for v in viols)


def minimise_case(binary, case, clause):
    return minimise(case, simpler_cases, lambda c: same_failure(*eval_case(binary, c), clause), budget=400)


def miri_arm(prop, seed, tier, notes):
    t = TIERS[tier]
    env = cargo_env()
    env.update(build_env(seed, tier))
    env["CARGO_TARGET_DIR"] = os.path.join(TARGET, "miri")
    t0 = time.time()
    with BuildLock():
        e0 = dict(env)
        e0["MIRIFLAGS"] = "-Zmiri-ignore-leaks"
        p = subprocess.run(["cargo", "+nightly", "miri", "run", "--offline", "-q", "-p", "recsim", "--", "batch", "--seed", "0", "--count", "0"], cwd=SIM, env=e0,
                           stdout=subprocess.PIPE, stderr=subprocess.PIPE, text=True)
        if p.returncode != 0:
            raise HarnessError("miri build of recsim failed: " + p.stderr[-3000:])
    workers = min(WORKERS, 16)
    per = max(1, t["miri"] // (2 * workers))
    jobs = []
    for w in range(workers):
        for faults in ("off", "on"):
            e = dict(env)
            e["MIRIFLAGS"] = "-Zmiri-ignore-leaks -Zmiri-symbolic-alignment-check -Zmiri-seed=%d" % ((seed + w) % (2 ** 31))
            jobs.append(dict(cmd=["cargo", "+nightly", "miri", "run", "--offline", "-q", "-p", "recsim", "--", "batch", "--seed", str(seed),
                                  "--start", str(10 ** 9 + w * per), "--count", str(per), "--focus", prop, "--faults", faults,
                                  "--init-skipped", "--max-defs", str(t["miri_defs"]), "--max-ops", "12", "--trace-cases"],
                             cwd=SIM, env=e, tag=("miri", faults), miri_seed=(seed + w) % (2 ** 31)))
    # directed tours under the interpreter: every generated function of the selected definitions once
    for w in range(workers):
        e = dict(env)
        e["MIRIFLAGS"] = "-Zmiri-ignore-leaks -Zmiri-symbolic-alignment-check -Zmiri-seed=%d" % ((seed + 100 + w) % (2 ** 31))
        jobs.append(dict(cmd=["cargo", "+nightly", "miri", "run", "--offline", "-q", "-p", "recsim", "--", "tour", "--seed", str(seed), "--faults", "on" if w % 2 else "off", "--focus", prop,
                              "--init-skipped", "--max-defs", str(max(1, t["miri_tour_defs"] // 4) if prop in ("C06", "C07") else t["miri_tour_defs"]), "--part", str(w // 2), "--parts", str(max(1, workers // 2)), "--trace-cases"] + (["--max-histories", "8"] if tier == "quick" else []),
                         cwd=SIM, env=e, tag=("miri", "on" if w % 2 else "off"), miri_seed=(seed + 100 + w) % (2 ** 31)))
    results = fan_out(jobs, timeout=6 * 3600)
    merged = Merged()
    ub = []
    for r in results:
        if r["report"] is not None and r["rc"] == 0:
            merged.add(r["report"], "miri-" + r["tag"][1])
            continue
        err = r["stderr"]
        last_case = None
        for line in err.splitlines():
            if line.startswith("CASE "):
                last_case = line[5:]
        kind, where = parse_miri(err)
        ub.append(dict(kind=kind, where=where, case=json.loads(last_case) if last_case else None, stderr=err[-4000:], miri_seed=r.get("miri_seed", 0)))
    return merged, ub, time.time() - t0


def parse_miri(err):
    """(diagnostic class with numbers normalised, first source location after the diagnostic that
    lies in truc_runtime or in a generated module)"""
    import re
    lines = err.splitlines()
    kind, at = "interpreter stopped", 0
    for i, line in enumerate(lines):
        if "Undefined Behavior:" in line:
            kind = line.split("Undefined Behavior:", 1)[1].strip()
            at = i
            break
        if line.startswith("error:") and "aborting" not in line:
            kind = line[6:].strip()
            at = i
    kind = re.sub(r"0x[0-9a-f]+|\d+", "N", kind)
    kind = re.sub(r"alloc\w+|<\w+>", "_", kind)
    where = ""
    for line in lines[at:]:
        m = re.search(r"(truc_runtime/src/\w+\.rs:\d+|out/def_\d+\.rs:\d+)", line)
        if m:
            where = m.group(1)
            if where.startswith("out/"):
                where = "generated module"
            break
    return kind, where


def eval_case_miri(case, seed, tier, miri_seed=0, timeout=900):
    env = cargo_env()
    env.update(build_env(seed, tier))
    env["CARGO_TARGET_DIR"] = os.path.join(TARGET, "miri")
    env["MIRIFLAGS"] = "-Zmiri-ignore-leaks -Zmiri-symbolic-alignment-check -Zmiri-seed=%d" % miri_seed
    p = subprocess.run(["cargo", "+nightly", "miri", "run", "--offline", "-q", "-p", "recsim", "--", "case", "--json", json.dumps(case)],
                       cwd=SIM, env=env, stdout=subprocess.PIPE, stderr=subprocess.PIPE, text=True, errors="replace", timeout=timeout)
    if p.returncode in (0, 1) and p.stdout.strip().startswith("{"):
        rep = json.loads(p.stdout.strip().splitlines()[-1])
        return ("violation" if rep["violations"] else "ok"), rep["violations"], ""
    if p.returncode == 2:
        raise HarnessError("recsim (miri) rejected a case: " + p.stderr[-500:])
    kind, where = parse_miri(p.stderr)
    return "ub", [dict(property="?", clause="miri-ub", message="Miri: %s @ %s" % (kind, where), step=-1, op="?")], "%s @ %s" % (kind, where)


def classify_miri(kind):
    """Maps a Miri diagnostic class to the properties it is a verdict for (DESIGN.md 11 (ii)); anything
    else is printed as a note and never raises an alarm."""
    k = kind.lower()
    if "alignment" in k or "misaligned" in k or "unaligned" in k:
        return ["C07"]
    if "out-of-bounds" in k or "dangling" in k or "freed" in k or "dereferenc" in k or "use-after-free" in k or "has been freed" in k:
        return ["C07", "C06"]
    if "borrow" in k or "tag" in k or "protect" in k or "permission" in k or "provenance" in k:
        return ["C04", "C07"]
    if "pointer arithmetic" in k or "incorrect layout" in k:
        return ["C07"]
    if "constructing invalid value" in k or "invalid value" in k:
        # the record buffer itself typed as something that must be initialised / carries no provenance
        return ["C07", "C04"]
    if "uninitialized" in k:
        return []  # reading a never-written may-be-uninit field is outside C07's wording
    return []


def check(prop, tier, seed):
    t0 = time.time()
    os.makedirs(WORK, exist_ok=True)
    t = TIERS[tier]
    log("SIM-R %s tier=%s VERIF_SEED=%d" % (prop, tier, seed))
    bins = {}
    build_s = 0.0
    profiles = ("dev", "release") + (("hooks",) if prop in HOOK_PROPS and os.environ.get("VERIF_NO_HOOKS") != "1" else ())
    for profile in profiles:
        src, dt = build(profile, seed, tier)
        build_s += dt
        # private copy per (check, profile): a concurrently started check may rebuild the shared path
        dst = os.path.join(WORK, "recsim-%s-%s-%s" % (prop, tier, profile))
        with BuildLock():
            run(["cp", "-f", src, dst])
        bins[profile] = dst
    listing = json.loads(run([bins["dev"], "list"]).stdout)
    listing_release = json.loads(run([bins["release"], "list"]).stdout)
    # replay files look definitions up in the listing of the arm that found them
    listings = {"dev": listing, "release": listing_release, "hooks": listing_release, "miri": listing_release}
    ndefs = len({d["def"] for d in listing["definitions"]})
    free_share, fault_share = ARMS[prop]
    jobs = []
    per_profile_workers = max(1, WORKERS // 2)
    for profile in profiles:
        for faults, share in (("off", free_share), ("on", fault_share)):
            total = int(t["runs"] * share * (0.5 if profile == "hooks" else 1) * (RUNS_SCALE.get(prop, 1.0) if tier == "thorough" else 1.0))
            workers = max(1, int(round(per_profile_workers * share)))
            for (start, n) in split_ranges(total, workers):
                if n == 0:
                    continue
                prog = os.path.join(WORK, "recsim-%s-%s-%s-%d.progress" % (prop, profile, faults, start))
                if os.path.exists(prog):
                    os.unlink(prog)
                jobs.append(dict(cmd=[bins[profile], "batch", "--seed", str(seed), "--start", str(start), "--count", str(n), "--focus", prop, "--faults", faults, "--progress", prog],
                                 progress=prog, tag=(profile, faults)))
    # directed tours: every generated function of every definition once per arm and fault setting
    for profile in profiles:
        for faults in ("off", "on"):
            prog = os.path.join(WORK, "recsim-%s-%s-%s-tour.progress" % (prop, profile, faults))
            jobs.append(dict(cmd=[bins[profile], "tour", "--seed", str(seed), "--faults", faults, "--progress", prog], progress=prog, tag=(profile, faults), tour=True))
    results = fan_out(jobs, timeout=4 * 3600)
    total = Merged()
    per_arm = {}
    crashes = []
    hashes = {"dev": [], "release": [], "hooks": []}
    # crash supervision: a worker that died is restarted right after the history that killed it
    restarts = 0
    pending = list(zip(jobs, results))
    while pending:
        again = []
        for j, r in pending:
            profile, faults = r["tag"]
            if r["report"] is None or r["rc"] != 0:
                if r["rc"] == 2:
                    raise HarnessError("recsim usage error: " + r["stderr"][-500:])
                idx = r["progress_case"]
                pc = None
                if j.get("tour"):
                    # a tour has no seed-indexed stream: run it again with the cases traced, take the last one
                    p2 = subprocess.run(j["cmd"] + ["--trace-cases"], stdout=subprocess.PIPE, stderr=subprocess.PIPE, text=True, errors="replace")
                    last = [l[5:] for l in p2.stderr.splitlines() if l.startswith("CASE ")]
                    crashes.append(dict(arm=profile, case=json.loads(last[-1]) if last else None, run=None, rc=r["rc"], stderr=r["stderr"][-300:]))
                    continue
                if idx is not None and idx >= 0:
                    out = run([bins[profile], "gen", "--seed", str(seed), "--run", str(idx), "--focus", prop, "--faults", faults]).stdout
                    pc = dict(run=idx, case=json.loads(out.strip().splitlines()[-1]))
                crashes.append(dict(arm=profile, case=pc["case"] if pc else None, run=pc["run"] if pc else None, rc=r["rc"], stderr=r["stderr"][-300:]))
                if pc is not None and restarts < 64:
                    cmd = list(j["cmd"])
                    start = int(cmd[cmd.index("--start") + 1])
                    count = int(cmd[cmd.index("--count") + 1])
                    done = pc["run"] + 1 - start
                    if count - done > 0:
                        cmd[cmd.index("--start") + 1] = str(pc["run"] + 1)
                        cmd[cmd.index("--count") + 1] = str(count - done)
                        os.unlink(j["progress"])
                        again.append(dict(j, cmd=cmd))
                        restarts += 1
                continue
            arm = "%s/%s" % (profile, "faults" if faults == "on" else "fault-free")
            per_arm.setdefault(arm, Merged()).add(r["report"], arm)
            total.add(r["report"], arm)
            hashes[profile].append(r["report"]["hash"])
        pending = list(zip(again, fan_out(again, timeout=4 * 3600))) if again else []
    same_events = None  # the dev arm sweeps a larger definition set than the optimised arms: hashes are not comparable

    notes = []
    miri_merged, miri_ub, miri_s = Merged(), [], 0.0
    if os.environ.get("VERIF_NO_MIRI") != "1" and t["miri"] > 0:
        miri_merged, miri_ub, miri_s = miri_arm(prop, seed, tier, notes)

    mine, others = {}, {}
    for v in total.violations + miri_merged.violations:
        for viol in v["violations"]:
            key = "%s/%s" % (viol["clause"], viol["op"])
            bucket = mine if viol["property"] == prop else others
            bucket.setdefault(key, []).append((v, viol))
    for c in crashes:
        last = op_name(c["case"]["ops"][-1]) if c["case"] and c["case"]["ops"] else "unknown"
        viol = dict(property=prop, clause="crash", message="simulator process died (rc=%s) %s" % (c["rc"], c["stderr"]), step=-1, op=last)
        mine.setdefault("pending-crash", []).append((dict(case=c["case"], arm=c["arm"], run=c.get("run")), viol))
    for u in miri_ub:
        props = classify_miri(u["kind"])
        key = "miri-ub/%s @ %s" % (u["kind"][:90], u["where"])
        viol = dict(property=prop, clause="%s/miri-ub" % prop, message="Miri: %s %s" % (u["kind"], u["where"]), step=-1, op="?")
        if prop in props:
            mine.setdefault("%s/%s" % (prop, key), []).append((dict(case=u["case"], arm="miri", run=None, miri_seed=u["miri_seed"], miri_key="%s @ %s" % (u["kind"], u["where"])), viol))
        else:
            others.setdefault(key, []).append((dict(case=u["case"], arm="miri"), viol))

    exit_code = EXIT_OK
    reported = []
    # crashes: minimise first, then attribute to the properties of the operation that died
    if "pending-crash" in mine:
        items = mine.pop("pending-crash")
        seen_last = {}
        for v, viol in items[:6]:
            arm = v["arm"]
            case = v["case"]
            if case is None:
                raise HarnessError("a simulator worker died without a progress record: " + viol["message"])
            minimal, tried = minimise(case, simpler_cases, lambda c: eval_case(bins[arm], c)[0] == "crash", budget=300)
            status, viols = eval_case(bins[arm], minimal)
            if status != "crash":
                status0, _ = eval_case(bins[arm], case)
                if status0 != "crash":
                    notes.append("a worker died (rc in %s) but the history does not crash when replayed alone" % viol["message"][:60])
                    continue
                minimal = case
            last = op_name(minimal["ops"][-1]) if minimal["ops"] else "end-of-history"
            props = CRASH_PROPS.get(last, ["C07"])
            viol = dict(viol)
            viol["op"] = last
            viol["clause"] = "%s/crash" % prop
            key = "%s/crash/%s" % (prop, last)
            entry = (dict(case=minimal, original_case=case, arm=arm, run=v.get("run"), minimised=True, tried=tried), viol)
            if prop in props:
                mine.setdefault(key, []).append(entry)
            else:
                others.setdefault("crash/%s (counts against %s)" % (last, ",".join(props)), []).append(entry)
        if len(items) > 6:
            notes.append("%d further crashes were not minimised" % (len(items) - 6))

    for key in sorted(mine):
        v, viol = mine[key][0]
        kf = known_open(prop, key)
        if kf:
            log("KNOWN-FINDING: property=%s %s %s" % (prop, key, kf.get("what", viol["message"])))
            reported.append(dict(key=key, known=True, count=len(mine[key])))
            continue
        arm = v.get("arm", "dev")
        profile = arm.split("/")[0]
        case = v["case"]
        minimal, tried = case, v.get("tried", 0)
        if case is not None and arm == "miri" and v.get("miri_key"):
            mk = v["miri_key"]
            minimal, tried = minimise(case, simpler_cases, lambda c: eval_case_miri(c, seed, tier, v.get("miri_seed", 0))[2] == mk, budget=24)
        elif case is not None and profile in bins and not v.get("minimised"):
            minimal, tried = minimise_case(bins[profile], case, viol["clause"])
            if not same_failure(*eval_case(bins[profile], minimal), viol["clause"]):
                minimal = case
        definition = next((d for d in listings.get(profile, listing)["definitions"] if case and d["def"] == case["def"] and d["cap"] == case["cap"]), None)
        doc = dict(property=prop, simulator="SIM-R", tier=tier, seed=seed, run=v.get("run"),
                   build=dict(profile=profile, definition_seed=seed, tier=tier, miri_seed=v.get("miri_seed"), miri_key=v.get("miri_key")), key=key,
                   violation=viol, case=minimal, original_case=v.get("original_case", case), minimisation_attempts=tried,
                   definition=definition, replay_cmd="./check replay <this file>")
        path = write_replay(prop, seed, doc)
        log("VIOLATION property=%s replay=%s" % (prop, path))
        log("  key=%s arm=%s occurrences=%d" % (key, arm, len(mine[key])))
        log("  %s" % viol["message"].splitlines()[0][:400])
        if minimal is not None:
            log("  minimised history (%d ops) on %s/%s: %s" % (len(minimal["ops"]), minimal["def"], minimal["cap"], json.dumps(minimal["ops"])[:600]))
        reported.append(dict(key=key, known=False, count=len(mine[key]), replay=path))
        exit_code = EXIT_VIOLATION
    for n in notes:
        log("note: " + n)
    for key in sorted(others):
        log("note: oracle of another property fired (not this check's verdict): %s x%d" % (key, len(others[key])))
    if listing["pipeline_failures"]:
        log("note: %d definitions could not be built or generated and were skipped (C13 is not decided here): %s" % (len(listing["pipeline_failures"]), listing["pipeline_failures"][:3]))

    wall = time.time() - t0
    sim_wall = max(wall - build_s - miri_s, 1e-3)
    coverage = dict(
        evaluations=total.runs + miri_merged.runs,
        distinct_nontrivial=total.nontrivial_lower,
        rule=("a case = (generated definition, capacity instantiation, operation history, fault plan); definitions come from the real builder/generator over a seeded swarm of "
              "builder histories plus a directed corpus; histories (1..40 operations, half of them <= 6) and fault plans are drawn from the seeded PRNG with this property's operation mix; "
              "distinct = distinct hash of the whole case, non-trivial = at least 2 operations; the number is a true lower bound (largest exact per-worker count), "
              "distinct_estimate_kmv a k-minimum-values estimate over all workers; states_lower_bound counts distinct (definition, variant, per-field ownership vector, last operation, placement)"),
        samples=total.samples[:4],
        exhaustive=False,
        definitions=ndefs,
        instantiations=len(listing["definitions"]),
        variant_types=sum(d["variants"] for d in listing["definitions"]),
        definitions_optimised_arms=len({d["def"] for d in listing_release["definitions"]}),
        instantiations_optimised_arms=len(listing_release["definitions"]),
        pipeline_failures=listing["pipeline_failures"],
        shapes_excluded=["datum added and removed again before its variant is closed (C13 finding: capacity computation overflows)"],
        histories_per_arm={k: m.runs for k, m in sorted(per_arm.items())},
        logical_steps=total.steps + miri_merged.steps,
        simulated_time="none: truc has no clock; progress is counted in record operations (logical steps)",
        runs_per_hour=int(total.runs / sim_wall * 3600),
        operations=total.counters.get("ops", {}),
        fault_kinds_fired=total.counters.get("fault_fired", {}),
        probes=total.counters.get("probes", {}),
        states_lower_bound=max([r["report"].get("states", 0) for r in results if r["report"]] + [0]),
        distinct_estimate_kmv=total.kmv_estimate(),
        arms=dict(native={k: m.runs for k, m in sorted(per_arm.items())}, miri_histories=miri_merged.runs, miri_reports=len(miri_ub),
                  dev_release_event_hashes_equal=same_events),
        event_hash=total.hexhash(),
        real_components=REAL, stub_components=STUBS,
        findings=reported,
        build_s=round(build_s, 1), miri_s=round(miri_s, 1),
    )
    write_evidence(prop, tier, seed, LEVEL[prop], coverage, wall, sum(1 for r in reported if not r["known"]),
                   ["rustc and std behave as documented", "Miri's model of the abstract machine for the UB classes mapped to this property",
                    "the glue emitter and the reference model are correct (checked against mutants and harmless refactors, DESIGN.md 8)",
                    "a clean batch is evidence over the sampled definitions and histories, not a proof"])
    log("SIM-R %s: %d histories over %d definitions (%d instantiations), %d under Miri, %d violations, %.1fs" % (
        prop, total.runs, ndefs, len(listing["definitions"]), miri_merged.runs, sum(1 for r in reported if not r["known"]), wall))
    return exit_code


def replay(doc):
    prop = doc["property"]
    b = doc.get("build", {})
    profile = b.get("profile", "dev")
    if profile == "miri":
        status, viols, mk = eval_case_miri(doc["case"], b.get("definition_seed", DEFAULT_SEED), b.get("tier", "quick"), b.get("miri_seed") or 0)
        if status == "ub" and mk == b.get("miri_key"):
            log("replay: Miri reports again: " + mk)
            return EXIT_VIOLATION
        log("replay: Miri arm did not reproduce (%s %s)" % (status, mk))
        return EXIT_OK
    binary, _ = build(profile.split("/")[0], b.get("definition_seed", DEFAULT_SEED), b.get("tier", "quick"))
    status, viols = eval_case(binary, doc["case"])
    clause = doc["violation"]["clause"]
    if same_failure(status, viols, clause):
        log("replay: reproduced %s" % clause)
        for v in viols:
            log("  %s @step %s (%s): %s" % (v["clause"], v["step"], v["op"], v["message"][:300]))
        return EXIT_VIOLATION
    log("replay: %s did not reproduce (status %s)" % (clause, status))
    return EXIT_OK
