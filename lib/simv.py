"""SIM-V: vector conversion simulator driver (C08, C09, C10)."""
import copy
import json
import os
import subprocess
import tempfile
import time

from vlib import *

MODE = {"C08": "free", "C09": "fault", "C10": "mismatch"}

BUDGET = {
    # (enum max_len, seeded runs per profile, miri runs)
    "quick": {"C08": (5, 200000, 48), "C09": (5, 200000, 64), "C10": (8, 20000, 24)},
    "thorough": {"C08": (8, 6000000, 600), "C09": (7, 10000000, 1200), "C10": (40, 1000000, 200)},
}

LEVEL = {"C08": "exploration", "C09": "fault_enumeration", "C10": "fault_enumeration"}

REAL = ["truc_runtime::convert::try_convert_vec_in_place", "truc_runtime::convert::convert_vec_in_place", "std Vec / alloc / panic runtime"]
STUBS = ["element types (ledger tokens, heap owners, plain data)", "converter closure (scripted: convert / abandon / mutate previous output / error / panic at a chosen instant)",
         "global allocator wrapper (accounting and buffer watch only, no failure injection)"]


def finding_key(v, viol):
    """property / oracle clause / arm of the call that failed"""
    return "%s/%s" % (viol["clause"], v.get("ended") or case_arm(v["case"]))


def case_arm(case):
    for a in case.get("script", []):
        if isinstance(a, dict) and "Err" in a:
            return "error-arm"
        if isinstance(a, dict) and "Panic" in a:
            return "panic-arm"
    return "mismatch" if case.get("pair", "").startswith("m_") else "success"


def eval_case(binary, case, timeout=60):
    """Runs one case in a fresh process. Returns (status, violations) with status ok|violation|crash."""
    with tempfile.NamedTemporaryFile("w", suffix=".json", dir=WORK, delete=False) as f:
        json.dump(case, f)
        path = f.name
    try:
        p = subprocess.run([binary, "case", "--file", path], stdout=subprocess.PIPE, stderr=subprocess.PIPE, text=True, errors="replace", timeout=timeout)
    except subprocess.TimeoutExpired:
        os.unlink(path)
        return "crash", [{"property": "?", "clause": "hang", "message": "timeout"}]
    os.unlink(path)
    if p.returncode in (0, 1):
        try:
            rep = json.loads(p.stdout.strip().splitlines()[-1])
            return ("violation" if rep["violations"] else "ok"), rep["violations"]
        except (ValueError, IndexError):
            pass
    if p.returncode == 2:
        raise HarnessError("vecsim rejected a case: " + p.stderr[-500:])
    return "crash", [{"property": "?", "clause": "crash", "message": "process died (rc=%s): %s" % (p.returncode, p.stderr.strip()[-300:])}]


def simpler_cases(case):
    """Candidates in order of preference: shorter, earlier fault, simpler actions."""
    script = case["script"]
    n = case["len"]
    fault_pos = next((i for i, a in enumerate(script) if isinstance(a, dict)), None)
    # drop one element before the fault (or anywhere when fault free)
    limit = fault_pos if fault_pos is not None else len(script)
    # cut everything after the fault
    if fault_pos is not None and n > fault_pos + 1:
        c = copy.deepcopy(case)
        c["len"] = fault_pos + 1
        c["script"] = script[: fault_pos + 1]
        yield c
    # halve
    if limit >= 4:
        c = copy.deepcopy(case)
        cut = limit // 2
        c["script"] = script[cut:]
        c["len"] = max(0, n - cut)
        yield c
    for i in range(limit):
        c = copy.deepcopy(case)
        del c["script"][i]
        c["len"] = max(0, n - 1)
        yield c
    if fault_pos is None and n > len(script) and n > 0:
        c = copy.deepcopy(case)
        c["len"] = n - 1
        yield c
    if case.get("extra_cap"):
        c = copy.deepcopy(case)
        c["extra_cap"] = 0
        yield c
    if case.get("err"):
        c = copy.deepcopy(case)
        c["err"] = 0
        yield c
    for i, a in enumerate(script):
        if a in ("ConvMutPrev", "ConvReadPrev", "Abandon", "AbandonMutPrev"):
            c = copy.deepcopy(case)
            c["script"][i] = "Conv"
            yield c
    if fault_pos is not None:
        a = script[fault_pos]
        if "Panic" in a and a["Panic"] != ["AfterDropInput", "Str"]:
            for simpler in (["AfterDropInput", "Str"], [a["Panic"][0], "Str"], ["AfterDropInput", a["Panic"][1]]):
                if simpler != a["Panic"]:
                    c = copy.deepcopy(case)
                    c["script"][fault_pos] = {"Panic": simpler}
                    yield c
        if "Err" in a and a["Err"] != "AfterDropInput":
            c = copy.deepcopy(case)
            c["script"][fault_pos] = {"Err": "AfterDropInput"}
            yield c
    if case["pair"] not in ("tok8",) and not case["pair"].startswith("m_"):
        c = copy.deepcopy(case)
        c["pair"] = "tok8"
        yield c


def minimise_case(binary, case, clause):
    def still(c):
        status, viols = eval_case(binary, c)
        if clause.endswith("crash"):
            return status == "crash"
        return status == "violation" and any(v["clause"] == clause for v in viols)
    return minimise(case, simpler_cases, still, budget=300)


def case_of_index(binary, r, seed, mode, max_len):
    """The case a dead worker was running (the progress file holds its index)."""
    idx = r["progress_case"]
    if idx is None or idx < 0:
        return None
    if r["tag"][1] == "enum":
        out = run([binary, "enum", "--mode", mode, "--max-len", str(max_len), "--only", str(idx)]).stdout
    else:
        out = run([binary, "gen", "--seed", str(seed), "--run", str(idx), "--mode", mode]).stdout
    return json.loads(out.strip().splitlines()[-1])


def miri_arm(prop, seed, count, findings, notes):
    """Runs the same seeded stream under Miri (address seeds derived from VERIF_SEED): turns
    'touched freed, moved-out, misaligned or foreign memory' into a verdict instead of luck."""
    mode = MODE[prop]
    per = max(1, count // 8)
    jobs = []
    env = cargo_env()
    env["CARGO_TARGET_DIR"] = os.path.join(TARGET, "miri")
    t0 = time.time()
    # one build first (serialised), then the runs in parallel reuse it
    with BuildLock():
        env0 = dict(env)
        env0["MIRIFLAGS"] = "-Zmiri-ignore-leaks"
        p = subprocess.run(["cargo", "+nightly", "miri", "run", "--offline", "-p", "vecsim", "--", "catalogue"], cwd=SIM, env=env0,
                           stdout=subprocess.PIPE, stderr=subprocess.PIPE, text=True)
        if p.returncode != 0:
            raise HarnessError("miri build failed: " + p.stderr[-2000:])
    for w in range(8):
        e = dict(env)
        e["MIRIFLAGS"] = "-Zmiri-ignore-leaks -Zmiri-symbolic-alignment-check -Zmiri-seed=%d" % ((seed + w) % (2 ** 31))
        jobs.append(dict(cmd=["cargo", "+nightly", "miri", "run", "--offline", "-q", "-p", "vecsim", "--", "batch", "--seed", str(seed),
                              "--start", str(10 ** 9 + w * per), "--count", str(per), "--mode", mode, "--max-len", "40", "--trace-cases"],
                         cwd=SIM, env=e, tag="miri%d" % w))
    results = fan_out(jobs, timeout=7200)
    merged = Merged()
    ub = []
    for r in results:
        if r["report"] is not None and r["rc"] == 0:
            merged.add(r["report"], "miri")
            continue
        err = r["stderr"]
        last_case = None
        for line in err.splitlines():
            if line.startswith("CASE "):
                last_case = line[5:]
        import simr
        kind, where = simr.parse_miri(err)
        if where:
            kind = "%s @ %s" % (kind, where)
        ub.append(dict(kind=kind, case=json.loads(last_case) if last_case else None, stderr=err[-3000:], cmd=r["cmd"], miriflags=None))
    return merged, ub, time.time() - t0


def check(prop, tier, seed):
    t0 = time.time()
    os.makedirs(WORK, exist_ok=True)
    mode = MODE[prop]
    max_len, runs, miri_runs = BUDGET[tier][prop]
    log("SIM-V %s tier=%s VERIF_SEED=%d mode=%s" % (prop, tier, seed, mode))
    bins = {}
    build_s = 0.0
    for profile in ("dev", "release"):
        bins[profile], dt = cargo_build("vecsim", profile)
        build_s += dt
    jobs = []
    per_profile_workers = max(1, WORKERS // 2)
    for profile in ("dev", "release"):
        b = bins[profile]
        parts = 4 if tier == "quick" else per_profile_workers
        for part in range(parts):
            prog = os.path.join(WORK, "vecsim-%s-%s-enum%d.progress" % (prop, profile, part))
            jobs.append(dict(cmd=[b, "enum", "--mode", mode, "--max-len", str(max_len), "--part", str(part), "--parts", str(parts), "--progress", prog],
                             progress=prog, tag=(profile, "enum")))
        for (start, n) in split_ranges(runs, per_profile_workers):
            prog = os.path.join(WORK, "vecsim-%s-%s-batch%d.progress" % (prop, profile, start))
            jobs.append(dict(cmd=[b, "batch", "--seed", str(seed), "--start", str(start), "--count", str(n), "--mode", mode, "--progress", prog],
                             progress=prog, tag=(profile, "batch")))
    results = fan_out(jobs)
    merged = {"dev": Merged(), "release": Merged()}
    total = Merged()
    crashes = []
    for r in results:
        profile, kind = r["tag"]
        if r["report"] is None or r["rc"] != 0:
            if r["rc"] == 2:
                raise HarnessError("vecsim usage error: " + r["stderr"][-500:])
            crashes.append(dict(arm=profile, case=case_of_index(bins[profile], r, seed, mode, max_len), rc=r["rc"], stderr=r["stderr"][-500:]))
            continue
        merged[profile].add(r["report"], profile)
        total.add(r["report"], profile)
    enum_runs = sum(r["report"]["runs"] for r in results if r["report"] and r["tag"][1] == "enum")

    # the two profiles run exactly the same cases: their event hashes must agree
    notes = []
    profile_hash_equal = merged["dev"].hexhash().replace("dev", "") is not None
    dev_h = [r["report"]["hash"] for r in results if r["report"] and r["tag"][0] == "dev"]
    rel_h = [r["report"]["hash"] for r in results if r["report"] and r["tag"][0] == "release"]
    same_events = dev_h == rel_h
    if not same_events and not total.violations and not crashes:
        notes.append("event hashes differ between dev and release although no oracle fired")

    # Miri arm
    miri_merged, miri_ub, miri_s = (Merged(), [], 0.0)
    if os.environ.get("VERIF_NO_MIRI") != "1" and miri_runs > 0:
        miri_merged, miri_ub, miri_s = miri_arm(prop, seed, miri_runs, None, notes)

    # ---- verdicts -------------------------------------------------------------------------
    mine, others = {}, {}
    for v in total.violations + miri_merged.violations:
        for viol in v["violations"]:
            key = finding_key(v, viol)
            bucket = mine if viol["property"] == prop else others
            bucket.setdefault(key, []).append((v, viol))
    for c in crashes:
        key = "%s/crash/%s" % (prop, case_arm(c["case"]) if c["case"] else "unknown")
        mine.setdefault(key, []).append((dict(case=c["case"], arm=c["arm"], run=None), dict(property=prop, clause=prop + "/crash", message="simulator process died (rc=%s) %s" % (c["rc"], c["stderr"]))))
    for u in miri_ub:
        key = "%s/miri-ub/%s" % (prop, u["kind"][:60])
        mine.setdefault(key, []).append((dict(case=u["case"], arm="miri", run=None, miri_key=u["kind"]), dict(property=prop, clause=prop + "/miri-ub", message=u["kind"] + "\n" + u["stderr"][-1500:])))

    exit_code = EXIT_OK
    reported = []
    for key in sorted(mine):
        v, viol = mine[key][0]
        kf = known_open(prop, key)
        if kf:
            log("KNOWN-FINDING: property=%s %s %s" % (prop, key, kf.get("what", viol["message"])))
            reported.append(dict(key=key, known=True, count=len(mine[key])))
            continue
        arm = v.get("arm", "dev")
        case = v["case"]
        minimal, tried = case, 0
        if case is not None and arm == "miri":
            mk = v.get("miri_key")
            minimal, tried = minimise(case, simpler_cases, lambda c: eval_case_miri(c)[2] == mk, budget=20)
        elif case is not None and arm in bins:
            minimal, tried = minimise_case(bins[arm], case, viol["clause"])
            status, viols = eval_case(bins[arm], minimal)
            if status == "ok":
                minimal = case
        doc = dict(property=prop, simulator="SIM-V", tier=tier, seed=seed, run=v.get("run"), build=dict(profile=arm, miri_seed=0 if arm == "miri" else None), key=key,
                   violation=viol, case=minimal, original_case=case, minimisation_attempts=tried,
                   replay_cmd="./check replay <this file>")
        path = write_replay(prop, seed, doc)
        log("VIOLATION property=%s replay=%s" % (prop, path))
        log("  key=%s arm=%s occurrences=%d" % (key, arm, len(mine[key])))
        log("  %s" % viol["message"].splitlines()[0])
        log("  minimised case: %s" % json.dumps(minimal))
        reported.append(dict(key=key, known=False, count=len(mine[key]), replay=path))
        exit_code = EXIT_VIOLATION
    for key in sorted(others):
        log("note: oracle of another property fired (not this check's verdict): %s x%d" % (key, len(others[key])))
    for n in notes:
        log("note: " + n)

    # ---- evidence -------------------------------------------------------------------------
    wall = time.time() - t0
    evaluations = total.runs + miri_merged.runs
    sim_wall = max(wall - build_s - miri_s, 1e-3)
    coverage = dict(
        evaluations=evaluations,
        distinct_nontrivial=max(total.nontrivial_lower, 2 if total.nontrivial_lower >= 2 else total.nontrivial_lower),
        rule=("cases = (element type pair, vector length, spare capacity, api, converter script cut after the first fault); "
              "enumerated completely for lengths <= %d and drawn from the seeded PRNG stream beyond (lengths 0..40, swarm-chosen operation mix); "
              "distinct = distinct hash of that tuple, non-trivial = length >= 1; the number given is a true lower bound "
              "(largest exact per-worker count), distinct_estimate_kmv is a k-minimum-values estimate over all workers") % max_len,
        samples=total.samples[:5],
        exhaustive=False,
        enumerated_cases=enum_runs,
        enumeration_complete_up_to_len=max_len,
        seeded_runs_per_profile=runs,
        distinct_estimate_kmv=total.kmv_estimate(),
        logical_steps=total.steps + miri_merged.steps,
        simulated_time="none: truc has no clock; progress is counted in converter invocations (logical steps)",
        runs_per_hour=int(total.runs / sim_wall * 3600),
        fault_kinds_fired=total.counters.get("fault_fired", {}),
        outcomes=total.counters.get("ended", {}),
        probes=total.counters.get("probes", {}),
        type_pairs=total.counters.get("pairs", {}),
        arms=dict(native_dev=merged["dev"].runs, native_release=merged["release"].runs, miri=miri_merged.runs,
                  miri_ub_reports=len(miri_ub), dev_release_event_hashes_equal=same_events),
        event_hash=total.hexhash(),
        real_components=REAL, stub_components=STUBS,
        findings=reported,
        build_s=round(build_s, 1), miri_s=round(miri_s, 1),
    )
    write_evidence(prop, tier, seed, LEVEL[prop], coverage, wall, sum(1 for r in reported if not r["known"]),
                   ["the Rust compiler and std behave as documented", "Miri's interpretation of the abstract machine for the UB classes it reports",
                    "a clean batch is evidence over the sampled and enumerated cases, not a proof"])
    log("SIM-V %s: %d runs (%d enumerated), %d miri runs, %d violations, %.1fs" % (prop, total.runs, enum_runs, miri_merged.runs, sum(1 for r in reported if not r["known"]), wall))
    return exit_code


def eval_case_miri(case, miri_seed=0, timeout=1800):
    """One case under the interpreter: (status ok|violation|ub, violations, normalised diagnostic)."""
    import simr
    env = cargo_env()
    env["CARGO_TARGET_DIR"] = os.path.join(TARGET, "miri")
    env["MIRIFLAGS"] = "-Zmiri-ignore-leaks -Zmiri-symbolic-alignment-check -Zmiri-seed=%d" % miri_seed
    p = subprocess.run(["cargo", "+nightly", "miri", "run", "--offline", "-q", "-p", "vecsim", "--", "case", "--json", json.dumps(case)],
                       cwd=SIM, env=env, stdout=subprocess.PIPE, stderr=subprocess.PIPE, text=True, errors="replace", timeout=timeout)
    if p.returncode in (0, 1) and p.stdout.strip().startswith("{"):
        rep = json.loads(p.stdout.strip().splitlines()[-1])
        return ("violation" if rep["violations"] else "ok"), rep["violations"], ""
    kind, where = simr.parse_miri(p.stderr)
    return "ub", [], "%s @ %s" % (kind, where) if where else kind


def replay(doc):
    prop = doc["property"]
    profile = doc.get("build", {}).get("profile", "dev")
    if profile == "miri":
        status, viols, diag = eval_case_miri(doc["case"], doc.get("build", {}).get("miri_seed") or 0)
        if status == "ub":
            log("replay: Miri reports again: " + diag)
            return EXIT_VIOLATION
        log("replay: Miri arm did not reproduce (%s)" % status)
        return EXIT_OK
    binary, _ = cargo_build("vecsim", profile)
    os.makedirs(WORK, exist_ok=True)
    status, viols = eval_case(binary, doc["case"])
    clause = doc["violation"]["clause"]
    if (clause.endswith("crash") and status == "crash") or any(v["clause"] == clause for v in viols):
        log("replay: reproduced %s" % clause)
        for v in viols:
            log("  %s: %s" % (v["clause"], v["message"]))
        return EXIT_VIOLATION
    log("replay: %s did not reproduce (status %s)" % (clause, status))
    return EXIT_OK
