"""Trust checks of the machinery itself (DESIGN.md 8): determinism of the simulators and reach probes.

  ./check selftest determinism [n-seeds]   every seed run twice in separate processes (second time with ASLR off
                                           and a padded environment); event hashes and whole reports must be equal
  ./check selftest probes                  rare-condition probes must all be hit within the quick budget
"""
import json
import os
import shutil
import subprocess
import sys
import time

from vlib import *
import simr


def _perturbed(cmd):
    import simd
    prefix = ["setarch", os.uname().machine, "-R"] if simd.setarch_works() else []
    env = {"PATH": os.environ.get("PATH", ""), "HOME": "/root", "PAD": "y" * 4099}
    return prefix + cmd, env


def determinism(n_seeds, seed0):
    os.makedirs(WORK, exist_ok=True)
    vec, _ = cargo_build("vecsim", "dev")
    vec_rel, _ = cargo_build("vecsim", "release")
    rec, _ = simr.build("dev", DEFAULT_SEED, "quick")
    rec_copy = os.path.join(WORK, "recsim-selftest")
    shutil.copy2(rec, rec_copy)
    jobs = []
    for s in range(seed0, seed0 + n_seeds):
        for mode in ("free", "fault", "mismatch"):
            for b, tag in ((vec, "vecsim-dev"), (vec_rel, "vecsim-release")):
                cmd = [b, "batch", "--seed", str(s), "--count", "40", "--mode", mode]
                jobs.append(dict(cmd=cmd, tag=(tag, s, mode, 0)))
                c2, e2 = _perturbed(cmd)
                jobs.append(dict(cmd=c2, env=e2, tag=(tag, s, mode, 1)))
        for faults in ("on", "off"):
            cmd = [rec_copy, "batch", "--seed", str(s), "--count", "25", "--focus", "all", "--faults", faults]
            jobs.append(dict(cmd=cmd, tag=("recsim-dev", s, faults, 0)))
            c2, e2 = _perturbed(cmd)
            jobs.append(dict(cmd=c2, env=e2, tag=("recsim-dev", s, faults, 1)))
    t0 = time.time()
    results = fan_out(jobs, timeout=3600)
    table = {}
    bad = 0
    for r in results:
        sim, s, mode, k = r["tag"]
        if r["report"] is None:
            raise HarnessError("selftest worker failed: %s %s" % (r["tag"], r["stderr"][-300:]))
        table.setdefault((sim, s, mode), {})[k] = json.dumps(r["report"], sort_keys=True)
    for key, pair in sorted(table.items()):
        if pair[0] != pair[1]:
            bad += 1
            if bad <= 5:
                log("NON-DETERMINISTIC: %s differs between two processes" % (key,))
    log("selftest determinism: %d (simulator, seed, mode) triples run twice in separate processes (second with ASLR off, other environment): %d differ, %.1fs" % (len(table), bad, time.time() - t0))
    return EXIT_OK if bad == 0 else EXIT_HARNESS


REQUIRED_PROBES = {
    "recsim": ["chain_to_last_variant", "clone_from_ok", "clone_from_panicked", "clone_ok", "clone_panic_on_last_field", "decode_accepted_under_faults", "decode_rejected",
               "decode_roundtrip", "record_at_minimal_alignment", "record_with_uninit_field", "removed_and_added_share_bytes", "uninit_then_written", "vec_convert_fault", "vec_convert_ok"],
    "vecsim": ["all_abandoned", "empty_vector", "prev_mutated", "zst_vector", "fault_at_first", "fault_at_last", "fault_after_some_output", "fault_while_prev_borrowed"],
}


def probes(seed):
    vec, _ = cargo_build("vecsim", "dev")
    rec, _ = simr.build("dev", DEFAULT_SEED, "quick")
    seen = {}
    for mode in ("free", "fault"):
        rep = json.loads(run([vec, "batch", "--seed", str(seed), "--count", "20000", "--mode", mode]).stdout.strip().splitlines()[-1])
        for k, v in rep["probes"].items():
            seen[k] = seen.get(k, 0) + v
    rep = json.loads(run([rec, "batch", "--seed", str(seed), "--count", "6000", "--focus", "all", "--faults", "on"]).stdout.strip().splitlines()[-1])
    for k, v in rep["probes"].items():
        seen[k] = seen.get(k, 0) + v
    fired = rep["fault_fired"]
    missing = [p for sim in REQUIRED_PROBES for p in REQUIRED_PROBES[sim] if seen.get(p, 0) == 0]
    log("selftest probes: %s" % json.dumps({k: seen[k] for k in sorted(seen)}))
    log("selftest probes: fault kinds fired in recsim: %s" % json.dumps(fired))
    if missing:
        log("selftest probes: STUCK AT ZERO: %s" % missing)
        return EXIT_HARNESS
    return EXIT_OK


def main(argv, seed):
    what = argv[0] if argv else "determinism"
    if what == "determinism":
        n = int(argv[1]) if len(argv) > 1 else 200
        return determinism(n, 1)
    if what == "probes":
        return probes(seed)
    log(__doc__)
    return EXIT_HARNESS
