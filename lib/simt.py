"""SIM-T: thread-schedule simulator (C14): compile gate on generated record types + shuttle schedule
search for every record type that safe code may send / share although a field is not Send / Sync."""
import json
import os
import shutil
import subprocess
import time

from vlib import *

TIERS = {"quick": dict(schedules=2000), "thorough": dict(schedules=100000)}

REAL = ["truc builder + generate() (in the simulator's build script and probe emitter)", "rustc trait solving on the generated record types (auto traits and any impls the generated code carries)",
        "generated Record types, their constructors, accessors and Clone impls, truc_runtime::data"]
STUBS = ["field types with chosen Send/Sync properties (RacyRc, RacyCell, raw pointer, guard-like Sync-not-Send, Arc control) whose shared state is a shuttle atomic accessed load / yield / store",
         "OS threads and their interleaving: shuttle's seeded random and PCT schedulers"]


def artifacts():
    env = cargo_env()
    with BuildLock():
        t0 = time.time()
        p = subprocess.run(["cargo", "build", "--offline", "-p", "thrsim", "--message-format=json"], cwd=SIM, env=env, stdout=subprocess.PIPE, stderr=subprocess.PIPE, text=True)
        dt = time.time() - t0
        if p.returncode != 0:
            raise HarnessError("thrsim build failed (a generated module that does not compile is a pipeline failure, not a verdict):\n" + p.stderr[-4000:])
        libs = {}
        for line in p.stdout.splitlines():
            if not line.startswith("{"):
                continue
            m = json.loads(line)
            if m.get("reason") == "compiler-artifact":
                name = m["target"]["name"].replace("-", "_")
                for f in m.get("filenames", []):
                    if f.endswith(".rlib") and name in ("truc_runtime", "static_assertions", "thrtypes"):
                        libs[name] = f
        dst = os.path.join(WORK, "simt-libs")
        shutil.rmtree(dst, ignore_errors=True)
        os.makedirs(dst)
        deps = os.path.join(TARGET, "debug", "deps")
        for f in os.listdir(deps):
            if f.endswith(".rlib") or f.endswith(".rmeta") or f.endswith(".so"):
                shutil.copy2(os.path.join(deps, f), os.path.join(dst, f))
        libs = {k: os.path.join(dst, os.path.basename(v)) for k, v in libs.items()}
        for b in ("thrgen", "thrsim"):
            shutil.copy2(os.path.join(TARGET, "debug", b), os.path.join(dst, b))
    for need in ("truc_runtime", "static_assertions", "thrtypes"):
        if need not in libs:
            raise HarnessError("rlib of %s not found" % need)
    return dst, libs, dt


def rustc_cmd(src, out, libs, deps):
    cmd = ["rustc", "--edition", "2021", "--crate-type", "lib", "--crate-name", "probe", "--emit=metadata", "-o", out, src, "-L", "dependency=" + deps, "--cap-lints", "allow"]
    for k, v in libs.items():
        cmd += ["--extern", "%s=%s" % (k, v)]
    return cmd


def check(prop, tier, seed):
    t0 = time.time()
    os.makedirs(WORK, exist_ok=True)
    log("SIM-T %s tier=%s VERIF_SEED=%d" % (prop, tier, seed))
    dst, libs, build_s = artifacts()
    out = os.path.join(WORK, "simt-%s" % tier)
    shutil.rmtree(out, ignore_errors=True)
    run([os.path.join(dst, "thrgen"), out])
    probes = json.load(open(os.path.join(out, "manifest.json")))["probes"]
    results = fan_out([dict(cmd=rustc_cmd(os.path.join(out, p["file"]), os.path.join(out, p["file"] + ".rmeta"), libs, dst), tag=i) for i, p in enumerate(probes)])
    bad_controls = set()
    for p, r in zip(probes, results):
        p["rc"] = r["rc"]
        p["e0277"] = "E0277" in r["stderr"]
        if p["expect"] == "compile" and r["rc"] != 0:
            bad_controls.add(p["definition"])
            p["stderr"] = r["stderr"][-600:]
    for p in probes:
        if p["expect"].startswith("stub-") and (p["rc"] == 0) != (p["expect"] == "stub-accept"):
            raise HarnessError("stub type %s does not have the %s property its expectation assumes" % (p["stub_type"], p["trait"]))
    probes = [p for p in probes if not p["expect"].startswith("stub-")]
    findings = {}
    gate = {"accepted": 0, "rejected": 0}
    for p in probes:
        if p["expect"] == "compile" or p["definition"] in bad_controls:
            continue
        accepted = p["rc"] == 0
        gate["accepted" if accepted else "rejected"] += 1
        if accepted and p["expect"] == "reject":
            findings.setdefault("C14/only-if/%s" % p["trait"], []).append(p)
        elif not accepted and p["expect"] == "accept":
            findings.setdefault("C14/if/%s" % p["trait"], []).append(p)
    # schedule search: what safe code can then do
    schedules = TIERS[tier]["schedules"]
    search = {}
    sched_counts = {}
    thrsim = os.path.join(dst, "thrsim")
    replay_dir = os.path.join(out, "schedules")
    os.makedirs(replay_dir, exist_ok=True)
    # a scenario is run only if the record type it uses is among those wrongly accepted
    for key, scenario, used in (("C14/only-if/Send", "send", ("rc_then_cell", 1)), ("C14/only-if/Sync", "sync", ("cell_only", 0))):
        if key not in findings or not any((p["definition"], p["variant"]) == used for p in findings[key]):
            continue
        per = max(1, schedules // 3)
        jobs = [dict(cmd=[thrsim, "search", scenario, str(seed + i), str(per), kind, "--replay-dir", replay_dir], tag=kind) for i, kind in enumerate(("random", "pct2", "pct3"))]
        res = fan_out(jobs, timeout=3600)
        total_fail, first = 0, None
        for r in res:
            if r["report"] is None:
                raise HarnessError("thrsim failed: " + r["stderr"][-500:])
            total_fail += r["report"]["failing_schedules"]
            sched_counts["sched." + r["tag"]] = sched_counts.get("sched." + r["tag"], 0) + r["report"]["schedules"]
            first = first or r["report"]["first_failure"]
        search[key] = dict(scenario=scenario, schedules=per * 3, failing_schedules=total_fail, first_failure=first)
    # control scenario: a record that really is Send + Sync, used from three threads by safe code, must
    # survive every schedule (a failure here is a fault of the machinery, not a verdict)
    control = None
    ctl_ok = all(p["rc"] == 0 for p in probes if p["definition"] == "all_send_sync" and p["expect"] == "accept")
    if ctl_ok:
        per = max(1, schedules // 6)
        res = fan_out([dict(cmd=[thrsim, "search", "control", str(seed + i), str(per), kind], tag=kind) for i, kind in enumerate(("random", "pct2"))], timeout=3600)
        control = dict(schedules=0, failing_schedules=0)
        for r in res:
            if r["report"] is None:
                raise HarnessError("thrsim control scenario failed to run: " + r["stderr"][-500:])
            control["schedules"] += r["report"]["schedules"]
            control["failing_schedules"] += r["report"]["failing_schedules"]
            sched_counts["sched." + r["tag"]] = sched_counts.get("sched." + r["tag"], 0) + r["report"]["schedules"]
        if control["failing_schedules"]:
            raise HarnessError("the thread-safe control scenario failed under %d schedules: the schedule machinery is unsound" % control["failing_schedules"])
    exit_code = EXIT_OK
    reported = []
    for key in sorted(findings):
        ps = findings[key]
        kf = known_open(prop, key)
        s = search.get(key)
        what = "%d generated record types are %s although a field type is not" % (len(ps), key.split("/")[-1]) if "only-if" in key else "%d generated record types are not %s although every field type is" % (len(ps), key.split("/")[-1])
        if s:
            what += "; schedule search (%s scenario): %d of %d schedules end with corrupted shared state (%s)" % (s["scenario"], s["failing_schedules"], s["schedules"], (s["first_failure"] or "").split("\n")[0])
        if kf:
            log("KNOWN-FINDING: property=%s %s %s" % (prop, key, what))
            reported.append(dict(key=key, known=True, count=len(ps)))
            continue
        # keep shuttle's persisted schedule of the first failure next to the replay file
        sched_file = None
        files = sorted(os.listdir(replay_dir)) if os.path.isdir(replay_dir) else []
        if s and files:
            os.makedirs(REPLAYS, exist_ok=True)
            sched_file = os.path.join(REPLAYS, "%s-%d-%s.schedule" % (prop, seed, s["scenario"]))
            shutil.copy2(os.path.join(replay_dir, files[0]), sched_file)
        p0 = ps[0]
        doc = dict(property=prop, simulator="SIM-T", tier=tier, seed=seed, key=key, probe=dict(definition=p0["definition"], variant=p0["variant"], trait=p0["trait"], fields=p0["fields"], expect=p0["expect"]),
                   all_probes=[(p["definition"], p["variant"]) for p in ps], schedule_search=s, schedule_file=sched_file,
                   violation=dict(clause=key, message=what), replay_cmd="./check replay <this file>")
        path = write_replay(prop, seed, doc)
        log("VIOLATION property=%s replay=%s" % (prop, path))
        log("  key=%s %s" % (key, what))
        reported.append(dict(key=key, known=False, count=len(ps), replay=path))
        exit_code = EXIT_VIOLATION
    if bad_controls:
        log("note: definitions whose generated module does not compile were discarded: %s" % sorted(bad_controls))
    wall = time.time() - t0
    gated = [p for p in probes if p["expect"] != "compile" and p["definition"] not in bad_controls]
    coverage = dict(
        evaluations=len(probes) + sum(s["schedules"] for s in search.values()) + (control["schedules"] if control else 0),
        distinct_nontrivial=len({(p["definition"], p["variant"], p["trait"]) for p in gated}),
        rule=("compile gate: every (definition, variant, trait in {Send, Sync}) of a fixed set of definitions whose variants hold fields lacking Send and/or Sync (reference-counted pointer stub, cell stub, raw pointer, "
              "guard-like type) and all-Send+Sync controls; expected verdict = conjunction over the variant's field types. Schedule search: for every record type accepted although a field lacks the trait, "
              "a 3-thread clone / shared-increment scenario under shuttle's seeded random and PCT schedulers; distinct = distinct (definition, variant, trait)"),
        samples=[dict(definition=p["definition"], variant=p["variant"], trait=p["trait"], fields=p["fields"], expected=p["expect"], rustc="accepted" if p["rc"] == 0 else "rejected") for p in gated[::5]][:6],
        exhaustive=False,
        gate=gate, schedule_search=search, control_scenario=control, fault_kinds_fired=sched_counts, pipeline_failures=sorted(bad_controls),
        simulated_time="none (no clock); logical steps = compile probes + scheduler runs", runs_per_hour=int((len(probes) + sum(s["schedules"] for s in search.values())) / max(wall - build_s, 1e-3) * 3600),
        real_components=REAL, stub_components=STUBS, findings=reported, build_s=round(build_s, 1),
    )
    write_evidence(prop, tier, seed, "exploration", coverage, wall, sum(1 for r in reported if not r["known"]),
                   ["the deciding observation for 'only if' is the compiler's verdict on trait probes; the schedule search turns an acceptance into an observed, replayable corruption",
                    "the definition set is fixed (6 definitions, 13 variant types), not drawn by seed"])
    log("SIM-T %s: %d compile probes, %d schedules searched (+%d of the thread-safe control scenario), %d violations, %.1fs" % (
        prop, len(probes), sum(s["schedules"] for s in search.values()), control["schedules"] if control else 0, sum(1 for r in reported if not r["known"]), wall))
    return exit_code


def replay(doc):
    os.makedirs(WORK, exist_ok=True)
    dst, libs, _ = artifacts()
    out = os.path.join(WORK, "simt-replay")
    shutil.rmtree(out, ignore_errors=True)
    run([os.path.join(dst, "thrgen"), out])
    pr = doc["probe"]
    f = "%s_v%d_%s.rs" % (pr["definition"], pr["variant"], pr["trait"])
    p = subprocess.run(rustc_cmd(os.path.join(out, f), os.path.join(out, f + ".rmeta"), libs, dst), stdout=subprocess.PIPE, stderr=subprocess.PIPE, text=True)
    accepted = p.returncode == 0
    log("replay: rustc %s %s for %s variant %d (fields %s)" % ("accepts" if accepted else "rejects", pr["trait"], pr["definition"], pr["variant"], pr["fields"]))
    again = (accepted and pr["expect"] == "reject") or (not accepted and pr["expect"] == "accept")
    if again and doc.get("schedule_file") and os.path.exists(doc["schedule_file"]):
        r = subprocess.run([os.path.join(dst, "thrsim"), "replay", doc["schedule_search"]["scenario"], doc["schedule_file"]], stdout=subprocess.PIPE, stderr=subprocess.PIPE, text=True)
        log("replay: recorded schedule %s" % ("fails again: " + r.stderr.strip().splitlines()[-1][:200] if r.returncode != 0 else "did not fail"))
    return EXIT_VIOLATION if again else EXIT_OK
