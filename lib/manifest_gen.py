#!/usr/bin/env python3
"""Regenerates MANIFEST.json from one table (kept in code so that the file is always valid)."""
import json
import os
import sys

VERIF = os.path.dirname(os.path.dirname(os.path.abspath(__file__)))

CHECKS = {
    "C08": dict(engine="SIM-V", category="exploration", design_ref="DESIGN.md 2.1, 3",
                technique="deterministic simulation: seeded converter scripts against a Vec reference model, allocator seam, dev+release+Miri arms",
                text="Seeded search plus complete enumeration of short cases: every converted/mutating/abandoned pattern for vector lengths up to a bound over 16 element type pairs, and PRNG-drawn scripts for lengths up to 40; each run is judged against a plain-Vec model (values, order, call log, previous-output argument, buffer identity and capacity through the allocator seam). Evidence of absence over what was explored, not a proof.",
                note="Trusts rustc/std, the stub element types and the counting allocator wrapper; Miri arm trusts Miri's model of UB. Samples, does not prove."),
    "C09": dict(engine="SIM-V", category="fault_enumeration", design_ref="DESIGN.md 2.1, 3",
                technique="deterministic simulation with fault injection: error/panic injected into the converter at every position, instant and payload kind; ledger + allocator oracle",
                text="Every fault position x fault kind (error / panic) x instant (before/after dropping the input, after building the output, while holding the previous output) x payload kind x preceding converted/abandoned pattern is enumerated for vector lengths up to a bound over all element type pairs, and sampled by seed beyond; after each failed call the ledger (exactly-once destruction), the allocator log (buffer released once, live bytes back to baseline), the call log and the identity of the error value / panic payload are checked. Complete for the enumerated bound, sampled beyond.",
                note="Trusts rustc/std and the stubs; the converter's error type is a case dimension (Copy, heap-owning, zero-size, large); panicking Drop impls of elements and allocation failure are not injected (outside the property's statement)."),
    "C10": dict(engine="SIM-V", category="fault_enumeration", design_ref="DESIGN.md 2.1, 3",
                technique="deterministic simulation: layout-mismatch matrix as injected fault, ledger + allocator oracle",
                text="A matrix of 14 mismatching element type pairs (equal/unequal size x equal/unequal alignment, zero-size vs non-zero-size, same size with different alignment) x every vector length up to a bound is enumerated, plus seeded samples up to length 40: the call must unwind with zero converter calls, every input destroyed exactly once and the buffer freed once with its own layout.",
                note="The matrix is finite and hand-chosen; types outside it are not covered."),
    "C04": dict(engine="SIM-R", category="exploration", design_ref="DESIGN.md 2.2, 3, App. A",
                technique="deterministic simulation: seeded operation histories on generated records vs. an offset-free reference model; dev + release + Miri arms; low-rate fault injection on bystander records",
                text="Seeded search over (definition from the real builder/generator, capacity, operation history): New/NewUninit/Get/Set/Mutate/Move/Unpack on up to 4 live records in inline, boxed and shifted-box placements; after every step every field of every live record is read back through & and &mut accessors and compared with the model (unique values, so each read is attributable to one write), also right after injected faults on other records. Every arm also runs directed tours that call every generated function of every variant of every definition once (both constructor routes incl. the From impls, every accessor, unpack). Definitions: directed corpus + 150 (quick) / 400 (thorough) seeded builder histories in the unoptimised arm, corpus + 12 / 85 in the optimised, and Miri arms. Samples definitions and histories; no proof.",
                note="Trusts the glue emitter and model (exercised by seeded mutants), rustc, Miri for the UB classes mapped to C04. Definitions: directed corpus + seeded swarm; field types from a fixed catalogue."),
    "C05": dict(engine="SIM-R", category="exploration", design_ref="DESIGN.md 2.2, 3, App. A",
                technique="deterministic simulation: conversion chains through all four generated forms (single records and in-place vector conversion) vs. reference model, dev + release + Miri arms",
                text="Seeded search over conversion-heavy histories: each of the four generated From forms, chains of random forms up to the last variant, vector conversions with scripted converters, on definitions including removed and added fields that share bytes; carried fields must be unchanged, added fields equal the supplied values, returned removed fields equal what was stored. Samples; no proof.",
                note="Same trusted base as C04."),
    "C06": dict(engine="SIM-R", category="exploration", design_ref="DESIGN.md 2.2, 3, App. A",
                technique="deterministic simulation with fault injection: full record life cycles under clone/serde/converter faults and panicking destructors; exactly-once ledger + allocator conservation after every step and at end of life",
                text="Seeded search over whole life cycles (construction, mutation, conversion, vector conversion, unpack, clone, clone_from, decode, drop) with panics and errors injected inside user callbacks; after every operation the ledger's live instances must equal what the model says the world owns (no leak, no double destruction, replaced/removed values destroyed at the specified moment) and at the end of each history every instance is destroyed exactly once and heap bytes are back to baseline. Samples; no proof.",
                note="Ledger covers instrumented token types and heap owners via the allocator; plain Copy data cannot leak. After an injected destructor panic only 'nothing is destroyed twice' is judged (leaks there are memory-safe and outside the stated sequences)."),
    "C07": dict(engine="SIM-R", category="exploration", design_ref="DESIGN.md 2.2, 3, 5",
                technique="deterministic simulation: alignment/bounds monitor on every reference at the record's actual address (placements, capacities) + Miri arm with seeded addresses and symbolic alignment check",
                text="Native arm: for every live record after every step, every accessor's reference must be aligned for its type, inside the capacity, and the record itself aligned, at inline / boxed / shifted placements chosen to land on minimally aligned addresses, for CAP = MAX_SIZE and larger. Miri arm (seeded address allocator, symbolic alignment check, borrow tracking): decides alignment-requiring stores into unaligned destinations, out-of-bounds, use of moved-out/freed memory and pointer provenance for all raw accesses of generated code. Samples; no proof.",
                note="Typed raw loads/stores inside constructors, conversions and Drop are only visible to the Miri arm, which runs fewer histories (interpretation cost)."),
    "C11": dict(engine="SIM-F", category="fault_enumeration", design_ref="DESIGN.md 2.4, 3",
                technique="fault injection at the type-resolver seam: stale size / alignment / may-be-uninit information for each datum, decided by compiling the generated module (rustc type check + const evaluation) against the unperturbed control",
                text="For every datum of every drawn definition (directed corpus + seeded swarm), introduced in the first or a later variant, the recorded type information is made stale in every listed way (size-1, size+1, size*2, align/2, align*2, may-be-uninit on a non-Copy type) through both entry points (explicit override, edited JSON type table read back by a StaticTypeResolver): the generated module must be rejected by rustc while the unperturbed control compiles. Complete over data x perturbations x entry points of each definition; definitions are sampled. There is no schedule or clock in this property: the simulated fault is the stale table.",
                note="Trusts rustc; probes are type-checked on this host only (a foreign target cannot be executed here)."),
    "C14": dict(engine="SIM-T", category="exploration", design_ref="DESIGN.md 2.3, 3",
                technique="deterministic schedule search (shuttle, seeded random + PCT schedulers, persisted replayable schedules) gated by compile probes of Send / Sync on generated record types",
                text="For 6 definitions (13 variant types) holding fields that lack Send and/or Sync (reference-counted stub, cell stub, raw pointer, guard-like type) and all-Send+Sync controls, a compile probe per (variant, trait) must give the conjunction over the variant's field types (rejected with E0277 where a field lacks the trait, accepted where all have it). Every record type accepted although a field lacks the trait is then driven by a 3-thread scenario (clone on other threads / increment through a shared reference) under shuttle's seeded schedulers; a lost update is recorded with its replayable schedule. On a tree where the gate gives the expected verdicts no schedule is run.",
                note="The deciding observation for the 'only if' direction is the compiler's verdict; the schedule search demonstrates the consequence. The definition set is fixed, not seeded."),
    "C19": dict(engine="SIM-D", category="exploration", design_ref="DESIGN.md 2.5, 3",
                technique="replay determinism across perturbed processes: the same seeded builder histories generated twice per process in processes with different ASLR, environment, cwd, locale, thread count, heap history and hasher keys; byte identity of offsets, Display text and generated code",
                text="Seeded builder histories (swarm incl. gap-reuse and per-variant strategy mixtures, all fragment selections) are generated twice inside each of several processes whose ambient state is perturbed on purpose; offsets, Display text and generated code must be byte-identical in all copies. Sound (a deterministic generator can never be flagged); detection of hash-ordered or address-ordered iteration is probabilistic with the stated bound.",
                note="Which hasher keys or addresses a process gets cannot be chosen, only made different."),
    "C15": dict(engine="SIM-R", category="fault_enumeration", design_ref="DESIGN.md 2.2, 3",
                technique="deterministic simulation with fault injection: refinement of serde's tuple implementation under faulty readers/writers, stream mutations and failing element codecs",
                text="For every variant of serde-enabled definitions, JSON and bincode: encode(record) must equal encode(tuple of its fields) byte for byte, and decode::<Record>(s) must agree with decode::<(T0,..)>(s) (both error, or both ok with equal fields; never a panic) for well-formed streams and for streams truncated at any byte, with a flipped bit, with an extra, missing or wrongly typed element, delivered through readers with short reads, EINTR, an error or early EOF at byte k, and with the n-th element codec failing; after every rejected decode nothing decoded so far survives (ledger). Three serde arms: serde_json reader / writer, bincode, serde_json::Value (lengths known in advance). DecodeSweep operations and the directed tours enumerate, per stream, every truncation point, every failing element, every failing reader byte and every flipped bit (thinned beyond 160 positions); further fault positions are drawn by seed inside random histories.",
                note="Reference model = serde's own tuple implementation (the wire shape the fragment documents): a change of wire shape, e.g. to a length-prefixed sequence in bincode, would be reported as a divergence although round trips could still work. Round-trip equality is reported only where the tuple model round-trips too, so format limitations (e.g. u128 in JSON) cannot raise an alarm."),
    "C16": dict(engine="SIM-R", category="fault_enumeration", design_ref="DESIGN.md 2.2, 3",
                technique="deterministic simulation with fault injection: clone / clone_from with a panic injected at the clone of every field j; equality, independence and ledger oracles",
                text="For every variant of clone-enabled definitions: clone yields equal fields with fresh live instances, later mutation/drop of either side leaves the other intact (checked by the per-step read-back of all live records); clone_from makes the target equal while its previous instances are destroyed exactly once; a panic is injected at the clone of every field j in turn (CloneSweep operation and directed tours; additionally j drawn by seed inside random histories): after unwinding the source is intact, each target field holds its old or new value, nothing leaked or destroyed twice; a clone that returns after fewer field clones than the record has clonable fields is reported.",
                note="Enumeration over j is complete per swept record; which records are swept is decided by seed and by the tours (every variant of every definition at least once)."),
}

NOT_APPLICABLE = {
    "C01": "pure function of the builder request history and strategy choice: no schedule, clock, crash point, stream or injected fault in its statement, so deterministic simulation has nothing to decide (DESIGN.md 4); its consequences are observed indirectly by SIM-R",
    "C02": "pure function of the builder history (alignment/containment/order of a computed layout): not a simulation target (DESIGN.md 4)",
    "C03": "pure function of the builder history plus a compile-time size/alignment fact: not a simulation target (DESIGN.md 4)",
    "C12": "deterministic sequential state machine of the builder; invalid requests are inputs, not environment faults: not a simulation target (DESIGN.md 4)",
    "C13": "pure function of the builder history (display/generate/compile succeeds): not a simulation target; pipeline failures met by SIM-R/SIM-F are counted but are no verdict (DESIGN.md 4)",
    "C17": "pure function of a type name, decided by a compiler probe rather than by a simulation (DESIGN.md 4)",
    "C18": "pure functions of resolver answers / JSON round trip of a table: not a simulation target (DESIGN.md 4)",
    "C20": "pure function of the source definition: not a simulation target (DESIGN.md 4)",
}

PENDING = {
}

HOOKS = dict(
    guard="rustc cfg flag `truc_verif_hooks` (RUSTFLAGS=\"--cfg truc_verif_hooks\"); off by default, no cargo feature, the shipped crate is unchanged",
    enable="the C06 and C07 checks build their hooks-on arm with RUSTFLAGS=\"--cfg truc_verif_hooks\" into /verif/target/hooks (lib/simr.py); every other arm and check runs the shipped code",
    baseline_off_cmd="cd /repo && cargo test --workspace --no-fail-fast --offline",
    source_commits=["1b194ad"],
    add_only=True,
)

ENGINES = [
    dict(name="SIM-T", path="sim/thrsim, sim/thrtypes + lib/simt.py", serves_properties=["C14"], kind_free_text="compile gate on Send/Sync of generated record types + shuttle schedule search with persisted schedules"),
    dict(name="SIM-D", path="sim/simgen (bin simd) + lib/simd.py", serves_properties=["C19"], kind_free_text="replay-determinism checker: same seeded histories generated in perturbed processes, outputs diffed"),
    dict(name="SIM-F", path="sim/simgen (bin simf) + lib/simf.py", serves_properties=["C11"], kind_free_text="stale type table fault enumerator: rebuilds definitions with perturbed type information through the real builder entry points, generates with the real generator, compiles each probe with rustc"),
    dict(name="SIM-R", path="sim/recsim (+ sim/simgen, sim/simrt)", serves_properties=["C04", "C05", "C06", "C07", "C15", "C16"], kind_free_text="record life-cycle simulator: definitions generated by the real truc builder/generator in the simulator's build script, seeded operation histories with fault plans, offset-free reference model, value ledger, allocator seam, faulty Read/Write; native dev/release and Miri arms"),
    dict(name="SIM-V", path="sim/vecsim", serves_properties=["C08", "C09", "C10"], kind_free_text="seeded deterministic simulator of truc_runtime::convert with scripted faulty converter, value ledger and allocator seam; native dev/release and Miri arms"),
]


def main():
    checks = []
    for pid in sorted(CHECKS):
        c = CHECKS[pid]
        checks.append(dict(
            property_id=pid,
            quick_cmd="./check %s --tier quick" % pid,
            thorough_cmd="./check %s --tier thorough" % pid,
            evidence_file="evidence/%s.json" % pid,
            replay_cmd_template="./check replay {path}",
            engine=c["engine"],
            level_claimed=dict(category=c["category"], text=c["text"], design_ref=c["design_ref"]),
            level_note=c["note"],
            technique=c["technique"],
        ))
    na = [dict(property_id=k, reason=v) for k, v in sorted(NOT_APPLICABLE.items())]
    na += [dict(property_id=k, reason=v) for k, v in sorted(PENDING.items()) if k not in CHECKS]
    doc = dict(version=1, setup_cmd="./check setup", hooks=HOOKS, engines=ENGINES, checks=checks,
               not_applicable=sorted(na, key=lambda x: x["property_id"]),
               notes="Technique family: deterministic simulation with fault injection. One integer (VERIF_SEED, default 20260926) decides every generated case, fault and schedule; violations are minimised and written to replays/ and re-run by ./check replay. Known findings: known-findings.json. Design: DESIGN.md.")
    with open(os.path.join(VERIF, "MANIFEST.json"), "w") as f:
        json.dump(doc, f, indent=1)
        f.write("\n")


if __name__ == "__main__":
    main()
