#!/usr/bin/env python3
"""Regenerates MANIFEST.json from one table (kept in code so that the file is always valid)."""
import json
import os
import sys

VERIF = os.path.dirname(os.path.dirname(os.path.abspath(__file__)))

CHECKS = {
    "C08": dict(engine="SIM-V", category="exploration", design_ref="DESIGN.md 2.1, 3",
                technique="deterministic simulation: seeded converter scripts against a Vec reference model, allocator seam, dev+release+Miri arms",
                text="Seeded search plus complete enumeration of short cases: every converted/mutating/abandoned pattern for vector lengths up to a bound over 16 element type pairs, and PRNG-drawn scripts for lengths up to 40; each run is judged against a plain-Vec model (values, order, call log, previous-output argument, buffer identity and capacity through the allocator seam). Evidence of absence over what was explored, not a proof.",
                note="Trusts rustc/std, the stub element types and the counting allocator wrapper; Miri arm trusts Miri's model of UB. Samples, does not prove."),
    "C09": dict(engine="SIM-V", category="fault_enumeration", design_ref="DESIGN.md 2.1, 3",
                technique="deterministic simulation with fault injection: error/panic injected into the converter at every position, instant and payload kind; ledger + allocator oracle",
                text="Every fault position x fault kind (error / panic) x instant (before/after dropping the input, after building the output, while holding the previous output) x payload kind x preceding converted/abandoned pattern is enumerated for vector lengths up to a bound over all element type pairs, and sampled by seed beyond; after each failed call the ledger (exactly-once destruction), the allocator log (buffer released once, live bytes back to baseline), the call log and the identity of the error value / panic payload are checked. Complete for the enumerated bound, sampled beyond.",
                note="Trusts rustc/std and the stubs; panicking Drop impls and allocation failure are not injected (outside the property's statement)."),
    "C10": dict(engine="SIM-V", category="fault_enumeration", design_ref="DESIGN.md 2.1, 3",
                technique="deterministic simulation: layout-mismatch matrix as injected fault, ledger + allocator oracle",
                text="A matrix of 14 mismatching element type pairs (equal/unequal size x equal/unequal alignment, zero-size vs non-zero-size, same size with different alignment) x every vector length up to a bound is enumerated, plus seeded samples up to length 40: the call must unwind with zero converter calls, every input destroyed exactly once and the buffer freed once with its own layout.",
                note="The matrix is finite and hand-chosen; types outside it are not covered."),
}

NOT_APPLICABLE = {
    "C01": "pure function of the builder request history and strategy choice: no schedule, clock, crash point, stream or injected fault in its statement, so deterministic simulation has nothing to decide (DESIGN.md 4); its consequences are observed indirectly by SIM-R",
    "C02": "pure function of the builder history (alignment/containment/order of a computed layout): not a simulation target (DESIGN.md 4)",
    "C03": "pure function of the builder history plus a compile-time size/alignment fact: not a simulation target (DESIGN.md 4)",
    "C12": "deterministic sequential state machine of the builder; invalid requests are inputs, not environment faults: not a simulation target (DESIGN.md 4)",
    "C13": "pure function of the builder history (display/generate/compile succeeds): not a simulation target; pipeline failures met by SIM-R/SIM-F are counted but are no verdict (DESIGN.md 4)",
    "C17": "pure function of a type name, decided by a compiler probe rather than by a simulation (DESIGN.md 4)",
    "C18": "pure functions of resolver answers / JSON round trip of a table: not a simulation target (DESIGN.md 4)",
    "C20": "pure function of the source definition: not a simulation target (DESIGN.md 4)",
}

PENDING = {
    "C04": "check under construction (SIM-R, DESIGN.md 2.2): not claimed until the simulator is committed",
    "C05": "check under construction (SIM-R, DESIGN.md 2.2): not claimed until the simulator is committed",
    "C06": "check under construction (SIM-R, DESIGN.md 2.2): not claimed until the simulator is committed",
    "C07": "check under construction (SIM-R, DESIGN.md 2.2): not claimed until the simulator is committed",
    "C11": "check under construction (SIM-F, DESIGN.md 2.4): not claimed until the simulator is committed",
    "C14": "check under construction (SIM-T, DESIGN.md 2.3): not claimed until the simulator is committed",
    "C15": "check under construction (SIM-R, DESIGN.md 2.2): not claimed until the simulator is committed",
    "C16": "check under construction (SIM-R, DESIGN.md 2.2): not claimed until the simulator is committed",
    "C19": "check under construction (SIM-D, DESIGN.md 2.5): not claimed until the simulator is committed",
}

HOOKS = dict(
    guard="cargo feature `verif-hooks` of truc_runtime (no hook commit yet: every current check runs the shipped code)",
    enable="cargo build --features truc_runtime/verif-hooks (done by ./check where a check uses the hooks)",
    baseline_off_cmd="cd /repo && cargo test --workspace --no-fail-fast --offline",
    source_commits=[],
    add_only=True,
)

ENGINES = [
    dict(name="SIM-V", path="sim/vecsim", serves_properties=["C08", "C09", "C10"], kind_free_text="seeded deterministic simulator of truc_runtime::convert with scripted faulty converter, value ledger and allocator seam; native dev/release and Miri arms"),
]


def main():
    checks = []
    for pid in sorted(CHECKS):
        c = CHECKS[pid]
        checks.append(dict(
            property_id=pid,
            quick_cmd="./check %s --tier quick" % pid,
            thorough_cmd="./check %s --tier thorough" % pid,
            evidence_file="evidence/%s.json" % pid,
            replay_cmd_template="./check replay {path}",
            engine=c["engine"],
            level_claimed=dict(category=c["category"], text=c["text"], design_ref=c["design_ref"]),
            level_note=c["note"],
            technique=c["technique"],
        ))
    na = [dict(property_id=k, reason=v) for k, v in sorted(NOT_APPLICABLE.items())]
    na += [dict(property_id=k, reason=v) for k, v in sorted(PENDING.items()) if k not in CHECKS]
    doc = dict(version=1, setup_cmd="./check setup", hooks=HOOKS, engines=ENGINES, checks=checks,
               not_applicable=sorted(na, key=lambda x: x["property_id"]),
               notes="Technique family: deterministic simulation with fault injection. One integer (VERIF_SEED, default 20260926) decides every generated case, fault and schedule; violations are minimised and written to replays/ and re-run by ./check replay. Known findings: known-findings.json. Design: DESIGN.md.")
    with open(os.path.join(VERIF, "MANIFEST.json"), "w") as f:
        json.dump(doc, f, indent=1)
        f.write("\n")


if __name__ == "__main__":
    main()
