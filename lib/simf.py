"""SIM-F: stale type table fault enumerator (C11)."""
import json
import os
import shutil
import subprocess
import time

from vlib import *

TIERS = {"quick": dict(swarm=6, corpus=True), "thorough": dict(swarm=90, corpus=True)}

REAL = ["truc NativeRecordDefinitionBuilder (add_datum_override, add_dynamic_datum), StaticTypeResolver JSON round trip", "the shipped closing strategies",
        "truc generate()", "rustc type checking + const evaluation of the generated module against truc_runtime and static_assertions"]
STUBS = ["the type resolver's answers: one datum's recorded size / alignment / may-be-uninit flag is made stale on purpose", "field types from the simulator's catalogue"]


def artifacts():
    """Builds the probe emitter and returns the rlibs the probes link against (from cargo's own report)."""
    env = cargo_env()
    with BuildLock():
        t0 = time.time()
        p = subprocess.run(["cargo", "build", "--offline", "-p", "simgen", "--message-format=json"], cwd=SIM, env=env,
                           stdout=subprocess.PIPE, stderr=subprocess.PIPE, text=True)
        dt = time.time() - t0
        if p.returncode != 0:
            raise HarnessError("simgen build failed:\n" + p.stderr[-4000:])
        libs = {}
        for line in p.stdout.splitlines():
            if not line.startswith("{"):
                continue
            m = json.loads(line)
            if m.get("reason") == "compiler-artifact":
                name = m["target"]["name"].replace("-", "_")
                for f in m.get("filenames", []):
                    if f.endswith(".rlib") and name in ("truc_runtime", "static_assertions", "simrt"):
                        libs[name] = f
        # private copies: the probes must not race with a rebuild of the shared target directory
        dst = os.path.join(WORK, "simf-libs")
        shutil.rmtree(dst, ignore_errors=True)
        os.makedirs(dst)
        deps = os.path.join(TARGET, "debug", "deps")
        for f in os.listdir(deps):
            if f.endswith(".rlib") or f.endswith(".rmeta") or f.endswith(".so"):
                shutil.copy2(os.path.join(deps, f), os.path.join(dst, f))
        libs = {k: os.path.join(dst, os.path.basename(v)) for k, v in libs.items()}
        simf = os.path.join(dst, "simf")
        shutil.copy2(os.path.join(TARGET, "debug", "simf"), simf)
    for need in ("truc_runtime", "static_assertions", "simrt"):
        if need not in libs:
            raise HarnessError("rlib of %s not found in cargo's report" % need)
    return simf, libs, dst, dt


def rustc_cmd(src, out, libs, deps):
    cmd = ["rustc", "--edition", "2021", "--crate-type", "lib", "--crate-name", "probe", "--emit=metadata", "-o", out, src,
           "-L", "dependency=" + deps, "--cap-lints", "allow"]
    for k, v in libs.items():
        cmd += ["--extern", "%s=%s" % (k, v)]
    return cmd


def judge(probe, rc, stderr):
    """-> (verdict, detail): held | violation | pipeline"""
    codes = sorted(set(w.strip("[]:") for w in stderr.replace("error[", " error[ ").split() if w.startswith("E0") and len(w.strip("[]:")) == 5))
    if probe["expect"] == "compile":
        return ("held" if rc == 0 else "pipeline"), codes
    if rc == 0:
        return "violation", codes
    if probe["expect"] == "reject-layout":
        return ("held" if "E0080" in codes else "held-other-diagnostic"), codes
    return ("held" if "E0277" in codes else "held-other-diagnostic"), codes


def check(prop, tier, seed):
    t0 = time.time()
    os.makedirs(WORK, exist_ok=True)
    t = TIERS[tier]
    log("SIM-F %s tier=%s VERIF_SEED=%d" % (prop, tier, seed))
    simf, libs, deps, build_s = artifacts()
    out = os.path.join(WORK, "simf-%s" % tier)
    shutil.rmtree(out, ignore_errors=True)
    run([simf, out, str(seed), str(t["swarm"])] + (["corpus"] if t["corpus"] else []))
    manifest = json.load(open(os.path.join(out, "manifest.json")))
    probes = manifest["probes"]
    plans = {p["name"]: p for p in manifest["plans"]}
    jobs = [dict(cmd=rustc_cmd(os.path.join(out, p["file"]), os.path.join(out, p["file"] + ".rmeta"), libs, deps), tag=i) for i, p in enumerate(probes)]
    results = fan_out(jobs, timeout=3600)
    verdicts = {}
    bad_controls = set()
    for p, r in zip(probes, results):
        v, codes = judge(p, r["rc"], r["stderr"])
        p["verdict"], p["codes"] = v, codes
        if p["expect"] == "compile" and v == "pipeline":
            bad_controls.add(p["definition"])
    findings = {}
    counts = {}
    diag = {}
    evaluated = 0
    for p in probes:
        if p["definition"] in bad_controls or p["expect"] == "compile":
            continue
        evaluated += 1
        kind = "table.%s.%s" % (p["perturbation"], p["entry"].lower())
        counts[kind] = counts.get(kind, 0) + 1
        for c in p["codes"]:
            diag[c] = diag.get(c, 0) + 1
        if p["verdict"] == "violation":
            key = "C11/accepted/%s/%s" % (p["perturbation"], p["entry"])
            findings.setdefault(key, []).append(p)
    exit_code = EXIT_OK
    reported = []
    for key in sorted(findings):
        # the smallest definition that shows it is the minimised replay
        ps = sorted(findings[key], key=lambda p: (len(plans[p["definition"]]["reqs"]), p["datum"]))
        p = ps[0]
        kf = known_open(prop, key)
        if kf:
            log("KNOWN-FINDING: property=%s %s %s" % (prop, key, kf.get("what", "")))
            reported.append(dict(key=key, known=True, count=len(ps)))
            continue
        doc = dict(property=prop, simulator="SIM-F", tier=tier, seed=seed, key=key, plan=plans[p["definition"]], field=p["datum"], perturbation=p["perturbation"], entry=p["entry"],
                   violation=dict(clause=key, message="rustc accepted the generated module although datum f%d (%s, real size/align/copy %s) was recorded as %s" % (p["datum"], p["datum_type"], p["real"], p["recorded"])),
                   occurrences=len(ps), replay_cmd="./check replay <this file>")
        path = write_replay(prop, seed, doc)
        log("VIOLATION property=%s replay=%s" % (prop, path))
        log("  key=%s occurrences=%d of %d probes of that kind" % (key, len(ps), counts.get("table.%s.%s" % (p["perturbation"], p["entry"].lower()), 0)))
        log("  %s" % doc["violation"]["message"])
        reported.append(dict(key=key, known=False, count=len(ps), replay=path))
        exit_code = EXIT_VIOLATION
    if bad_controls:
        log("note: %d definitions whose unperturbed module does not compile were discarded (C13 is not decided here): %s" % (len(bad_controls), sorted(bad_controls)[:5]))
    wall = time.time() - t0
    samples = [dict(definition=p["definition"], datum=p["datum"], type=p["datum_type"], variant=p["introduced_in_variant"], perturbation=p["perturbation"], entry=p["entry"],
                    recorded=p["recorded"], real=p["real"], rustc=p["verdict"], diagnostics=p["codes"]) for p in probes if p["expect"] != "compile"][:: max(1, len(probes) // 5)][:5]
    distinct = len({(p["definition"], p["datum"], p["perturbation"], p["entry"]) for p in probes if p["expect"] != "compile" and p["definition"] not in bad_controls})
    coverage = dict(
        evaluations=len(probes),
        distinct_nontrivial=distinct,
        rule=("every datum x {size-1, size+1, size*2, align/2, align*2, may-be-uninit on a non-Copy type} x {override entry point, edited JSON table} of every drawn definition "
              "(directed corpus + seeded swarm), each paired with the unperturbed definition which must compile; distinct = distinct (definition, datum, perturbation, entry point); "
              "all are non-trivial (the recorded information differs from the real one)"),
        samples=samples,
        exhaustive=False,
        enumeration="complete over data x perturbations x entry points for each drawn definition; definitions are sampled",
        definitions=len(plans), controls=sum(1 for p in probes if p["expect"] == "compile"), perturbed_probes=evaluated,
        pipeline_failures=manifest["pipeline_failures"] + sorted(bad_controls),
        fault_kinds_fired=counts, diagnostics=diag,
        held_with_other_diagnostic=sum(1 for p in probes if p["verdict"] == "held-other-diagnostic"),
        simulated_time="none (no clock); one logical step = one compile probe", runs_per_hour=int(len(probes) / max(wall - build_s, 1e-3) * 3600),
        real_components=REAL, stub_components=STUBS, findings=reported, build_s=round(build_s, 1),
    )
    write_evidence(prop, tier, seed, "fault_enumeration", coverage, wall, sum(1 for r in reported if not r["known"]),
                   ["rustc's type checker and const evaluator", "the probes link against the catalogue types' real layout on this host (no foreign target is executed)"])
    log("SIM-F %s: %d compile probes (%d perturbed) over %d definitions, %d violations, %.1fs" % (prop, len(probes), evaluated, len(plans), sum(1 for r in reported if not r["known"]), wall))
    return exit_code


def replay(doc):
    os.makedirs(WORK, exist_ok=True)
    simf, libs, deps, _ = artifacts()
    out = os.path.join(WORK, "simf-replay")
    shutil.rmtree(out, ignore_errors=True)
    os.makedirs(out)
    plan_path = os.path.join(out, "plan.json")
    json.dump(doc["plan"], open(plan_path, "w"))
    run([simf, out, "--plan", plan_path, str(doc["field"]), doc["perturbation"], doc["entry"]])
    c = subprocess.run(rustc_cmd(os.path.join(out, "control.rs"), os.path.join(out, "control.rmeta"), libs, deps), stdout=subprocess.PIPE, stderr=subprocess.PIPE, text=True)
    p = subprocess.run(rustc_cmd(os.path.join(out, "probe.rs"), os.path.join(out, "probe.rmeta"), libs, deps), stdout=subprocess.PIPE, stderr=subprocess.PIPE, text=True)
    log("replay: control rc=%d, perturbed rc=%d" % (c.returncode, p.returncode))
    if c.returncode == 0 and p.returncode == 0:
        log("replay: reproduced %s" % doc["key"])
        return EXIT_VIOLATION
    return EXIT_OK
