"""Shared orchestration helpers of the truc simulators (stdlib only).

Everything that decides a verdict lives in the Rust simulators; this module only builds them,
fans seeds out to worker processes, merges their reports in seed order, supervises crashes,
minimises failing cases by re-running the simulator on candidate cases, and writes evidence.
"""
import fcntl
import hashlib
import json
import os
import signal
import subprocess
import sys
import time

VERIF = os.path.dirname(os.path.dirname(os.path.abspath(__file__)))
REPO = os.environ.get("VERIF_REPO", "/repo")
SIM = os.path.join(VERIF, "sim")
TARGET = os.environ.get("VERIF_TARGET", os.path.join(VERIF, "target"))
WORK = os.path.join(VERIF, "work")
EVIDENCE = os.path.join(VERIF, "evidence")
REPLAYS = os.path.join(VERIF, "replays")
KNOWN = os.path.join(VERIF, "known-findings.json")
DEFAULT_SEED = 20260926
WORKERS = int(os.environ.get("VERIF_WORKERS", "16"))

EXIT_OK, EXIT_VIOLATION, EXIT_HARNESS = 0, 1, 2


class HarnessError(Exception):
    pass


def log(msg):
    print(msg, flush=True)


def env_seed():
    try:
        return int(os.environ.get("VERIF_SEED", DEFAULT_SEED))
    except ValueError:
        return DEFAULT_SEED


def cargo_env():
    env = dict(os.environ)
    env["CARGO_NET_OFFLINE"] = "true"
    env["CARGO_TARGET_DIR"] = TARGET
    env.setdefault("CARGO_TERM_COLOR", "never")
    # the simulators must see the repository tree the check was pointed at
    env["VERIF_REPO"] = REPO
    return env


class BuildLock:
    """One cargo invocation at a time over the shared target directory."""

    def __enter__(self):
        os.makedirs(TARGET, exist_ok=True)
        self.f = open(os.path.join(TARGET, ".verif-build.lock"), "w")
        fcntl.flock(self.f, fcntl.LOCK_EX)
        return self

    def __exit__(self, *a):
        fcntl.flock(self.f, fcntl.LOCK_UN)
        self.f.close()


def run(cmd, cwd=None, env=None, timeout=None, check=True, capture=True):
    p = subprocess.run(cmd, cwd=cwd, env=env, timeout=timeout,
                       stdout=subprocess.PIPE if capture else None,
                       stderr=subprocess.STDOUT if capture else None, text=True)
    if check and p.returncode != 0:
        raise HarnessError("command failed (%d): %s\n%s" % (p.returncode, " ".join(cmd), (p.stdout or "")[-4000:]))
    return p


def cargo_build(package, profile="dev", features=None, extra=None, cwd=SIM):
    """Builds a simulator package against /repo's current working tree; returns the binary path."""
    cmd = ["cargo", "build", "--offline", "-p", package]
    if profile == "release":
        cmd.append("--release")
    if features:
        cmd += ["--features", ",".join(features)]
    if extra:
        cmd += extra
    with BuildLock():
        t0 = time.time()
        run(cmd, cwd=cwd, env=cargo_env())
        dt = time.time() - t0
    sub = "release" if profile == "release" else "debug"
    return os.path.join(TARGET, sub, package), dt


# ------------------------------------------------------------------------------------------
# worker fan-out
# ------------------------------------------------------------------------------------------

def fan_out(jobs, timeout=3600):
    """jobs: list of dicts {cmd, progress (optional path), tag}. Runs them WORKERS at a time, output
    captured in files (no pipe can fill up). Returns results in job order: dict(tag, rc, report
    (parsed last JSON line of stdout or None), stdout, stderr, progress_case = index of the run in progress)."""
    import tempfile
    os.makedirs(WORK, exist_ok=True)
    results = [None] * len(jobs)
    running = {}
    nxt = 0
    deadline = time.time() + timeout
    tmpdir = tempfile.mkdtemp(prefix="fanout-", dir=WORK)

    def read(path):
        with open(path, "rb") as f:
            return f.read().decode("utf-8", errors="replace")

    try:
        while nxt < len(jobs) or running:
            while nxt < len(jobs) and len(running) < WORKERS:
                j = jobs[nxt]
                fo = open(os.path.join(tmpdir, "%d.out" % nxt), "wb")
                fe = open(os.path.join(tmpdir, "%d.err" % nxt), "wb")
                p = subprocess.Popen(j["cmd"], stdout=fo, stderr=fe, cwd=j.get("cwd"), env=j.get("env"))
                running[nxt] = (p, fo, fe)
                nxt += 1
            done = [i for i, (p, _, _) in running.items() if p.poll() is not None]
            if not done:
                if time.time() > deadline:
                    for p, _, _ in running.values():
                        p.kill()
                    raise HarnessError("worker timeout after %ds" % timeout)
                time.sleep(0.01)
                continue
            for i in done:
                p, fo, fe = running.pop(i)
                fo.close()
                fe.close()
                out = read(fo.name)
                err = read(fe.name)
                j = jobs[i]
                report = None
                for line in reversed(out.strip().splitlines()):
                    line = line.strip()
                    if line.startswith("{"):
                        try:
                            report = json.loads(line)
                        except ValueError:
                            report = None
                        break
                progress_case = None
                if j.get("progress") and os.path.exists(j["progress"]):
                    try:
                        progress_case = int(open(j["progress"]).read().strip() or "-1")
                    except ValueError:
                        progress_case = None
                results[i] = dict(miri_seed=j.get("miri_seed"), tag=j.get("tag"), rc=p.returncode, report=report, stdout=out[-20000:], stderr=err[-200000:],
                                  progress_case=progress_case, cmd=j["cmd"])
    finally:
        import shutil
        shutil.rmtree(tmpdir, ignore_errors=True)
    return results


def split_ranges(total, parts):
    """Disjoint contiguous ranges covering 0..total."""
    parts = max(1, min(parts, total)) if total else 1
    base, rem = divmod(total, parts)
    out, start = [], 0
    for i in range(parts):
        n = base + (1 if i < rem else 0)
        out.append((start, n))
        start += n
    return out


class Merged:
    """Merge of worker batch reports (all counters are sums; hashes are folded in job order)."""

    def __init__(self):
        self.runs = 0
        self.steps = 0
        self.hash = hashlib.sha256()
        self.counters = {}
        self.distinct_lower = 0
        self.nontrivial_lower = 0
        self.kmv = set()
        self.kmv_k = 2048
        self.samples = []
        self.violations = []
        self.crashes = []
        self.batches = 0

    def add(self, rep, arm):
        self.batches += 1
        self.runs += rep.get("runs", 0)
        self.steps += rep.get("steps", 0)
        self.hash.update((arm + ":" + rep.get("hash", "")).encode())
        for group in ("ended", "fault_fired", "probes", "pairs", "ops", "defs"):
            for k, v in (rep.get(group) or {}).items():
                self.counters.setdefault(group, {}).setdefault(k, 0)
                self.counters[group][k] += v
        # a true lower bound of the number of distinct cases over all workers: the largest local count
        self.distinct_lower = max(self.distinct_lower, rep.get("distinct_local", 0))
        self.nontrivial_lower = max(self.nontrivial_lower, rep.get("nontrivial_distinct_local", 0))
        for h in rep.get("kmv") or []:
            self.kmv.add(h)
        if len(self.kmv) > 4 * self.kmv_k:
            self.kmv = set(sorted(self.kmv)[: self.kmv_k])
        for s in rep.get("samples") or []:
            if len(self.samples) < 5:
                self.samples.append(s)
        for v in rep.get("violations") or []:
            v = dict(v)
            v["arm"] = arm
            self.violations.append(v)

    def kmv_estimate(self):
        ks = sorted(self.kmv)[: self.kmv_k]
        if len(ks) < self.kmv_k:
            return len(ks)
        return int((self.kmv_k - 1) * (2 ** 64) / ks[-1])

    def hexhash(self):
        return self.hash.hexdigest()[:16]


# ------------------------------------------------------------------------------------------
# known findings
# ------------------------------------------------------------------------------------------

def load_known():
    if not os.path.exists(KNOWN):
        return []
    return json.load(open(KNOWN)).get("findings", [])


def known_open(property_id, key):
    for f in load_known():
        if f.get("status") == "open" and f.get("property") == property_id and f.get("key") == key:
            return f
    return None


# ------------------------------------------------------------------------------------------
# minimisation (generic greedy delta debugging over a JSON case)
# ------------------------------------------------------------------------------------------

def minimise(case, candidates_fn, still_fails, budget=400):
    """candidates_fn(case) yields simpler cases; still_fails(case) -> bool. Greedy to a fixpoint."""
    tried = 0
    improved = True
    while improved and tried < budget:
        improved = False
        for cand in candidates_fn(case):
            tried += 1
            if tried > budget:
                break
            if still_fails(cand):
                case = cand
                improved = True
                break
    return case, tried


# ------------------------------------------------------------------------------------------
# evidence
# ------------------------------------------------------------------------------------------

def write_evidence(prop, tier, seed, level, coverage, wall_s, violations, assumptions, extra=None):
    os.makedirs(EVIDENCE, exist_ok=True)
    doc = dict(property_id=prop, tier=tier, seed=seed, level=level, coverage=coverage,
               assumptions=assumptions, wall_s=round(wall_s, 3), violations=violations)
    if extra:
        doc.update(extra)
    path = os.path.join(EVIDENCE, prop + ".json")
    tmp = path + ".tmp"
    with open(tmp, "w") as f:
        json.dump(doc, f, indent=1, sort_keys=True)
        f.write("\n")
    os.replace(tmp, path)
    return path


def write_replay(prop, seed, doc):
    os.makedirs(REPLAYS, exist_ok=True)
    blob = json.dumps(doc, sort_keys=True)
    h = hashlib.sha256(blob.encode()).hexdigest()[:10]
    path = os.path.join(REPLAYS, "%s-%d-%s.json" % (prop, seed, h))
    with open(path, "w") as f:
        json.dump(doc, f, indent=1, sort_keys=True)
        f.write("\n")
    return path
