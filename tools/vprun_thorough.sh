#!/bin/bash
# For `vp run --with-repo -- tools/vprun_thorough.sh <check ids...>`: runs thorough tiers from the snapshot
# against the snapshot of /repo (so that later edits of /repo do not disturb it). Results are NOT evidence.
set -u
if [ -n "${VP_RUN_REPO:-}" ]; then
  sed -i "s#\"/repo/#\"$VP_RUN_REPO/#" sim/*/Cargo.toml
  export VERIF_REPO=$VP_RUN_REPO
fi
for c in "$@"; do
  /usr/bin/time -v ./check $c --tier thorough 2>&1 | grep -E "^(SIM|VIOLATION|KNOWN|HARNESS|note|  key)|Maximum resident|Elapsed" | cut -c1-300
done
