#!/bin/bash
# Confirms a seeded change whose demonstration is an integration test of truc_runtime:
#   seedconfirm_rt.sh <worktree> <change.diff> <demo.rs>
# pristine: demo passes; with the change: the repository's own suite passes, the demo fails.
set -u
WT=$1; DIFF=$2; DEMO=$3
export CARGO_TARGET_DIR=$WT/target CARGO_NET_OFFLINE=true
cd $WT || exit 2
git checkout -q -- . ; rm -rf truc_runtime/tests
name=$(basename $DEMO .rs)
run_demo() { mkdir -p truc_runtime/tests; cp $DEMO truc_runtime/tests/; cargo test -p truc_runtime --test $name --offline 2>&1 | grep -E "^test result|panicked|error(\[|:)" | head -5; rm -rf truc_runtime/tests; }
echo "== pristine demo"; run_demo
git apply $DIFF || { echo "PATCH DOES NOT APPLY"; exit 2; }
echo "== with change: repository suite"; cargo test --workspace --no-fail-fast --offline 2>&1 | grep -E "^test result" | awk '{p+=$4; f+=$6} END {print "passed",p,"failed",f}'
echo "== with change: demo"; run_demo
git checkout -q -- .
