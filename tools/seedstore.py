#!/usr/bin/env python3
"""seedstore.py <seed-id> <property> <patch.diff> <demo-path> <needs-text> <confirmed-text> <detected-by-text>
Copies a confirmed seeded change into /verif/seeded/<seed-id>/ with its meta.json."""
import json, os, shutil, sys
sid, prop, patch, demo, needs, confirmed, detected = sys.argv[1:8]
d = os.path.join("/verif/seeded", sid)
shutil.rmtree(d, ignore_errors=True)
os.makedirs(d)
shutil.copy(patch, os.path.join(d, "patch.diff"))
if os.path.isdir(demo):
    shutil.copytree(demo, os.path.join(d, "demo"))
else:
    os.makedirs(os.path.join(d, "demo"))
    shutil.copy(demo, os.path.join(d, "demo"))
json.dump(dict(id=sid, breaks_property=prop, needs_to_manifest=needs, confirmed=confirmed, detected_by=detected,
               how_to_run_checks="tools/seedeval.py seeded/%s/patch.diff %s" % (sid, prop)), open(os.path.join(d, "meta.json"), "w"), indent=1)
print("stored", d)
