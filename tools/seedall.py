#!/usr/bin/env python3
"""Regression over all seeded changes: applies each seeded/<id>/patch.diff to /repo in turn, runs the quick
check of the property it breaks (Miri arm only where the seed needs it), undoes it, and records what fired in
seeded/<id>/detected.json. Prints a table. Usage: tools/seedall.py [id ...]"""
import json
import os
import subprocess
import sys
import time

VERIF = os.path.dirname(os.path.dirname(os.path.abspath(__file__)))
NEEDS_MIRI = {"C04-3", "C04-7", "C07-5", "C09-8"}


def main():
    ids = sys.argv[1:] or sorted(os.listdir(os.path.join(VERIF, "seeded")))
    rows = []
    for sid in ids:
        d = os.path.join(VERIF, "seeded", sid)
        patch = os.path.join(d, "patch.diff")
        if not os.path.exists(patch):
            continue
        prop = sid.split("-")[0]
        args = [os.path.join(VERIF, "tools", "seedeval.py"), patch, prop]
        if sid not in NEEDS_MIRI:
            args.append("--no-miri")
        t0 = time.time()
        p = subprocess.run(args, stdout=subprocess.PIPE, stderr=subprocess.STDOUT, text=True)
        last = p.stdout.strip().splitlines()[-1] if p.stdout.strip() else "[]"
        try:
            res = json.loads(last)
        except ValueError:
            res = [dict(check=prop, rc=-1, lines=[p.stdout[-500:]])]
        keys = sorted({l.strip().split()[0][4:] for r in res for l in r.get("lines", []) if l.strip().startswith("key=")})
        rc = res[0]["rc"] if res else -1
        json.dump(dict(seed=sid, check=prop, rc=rc, detected=rc == 1, keys=keys, wall_s=round(time.time() - t0, 1),
                       verif_commit=subprocess.run(["git", "-C", VERIF, "rev-parse", "--short", "HEAD"], stdout=subprocess.PIPE, text=True).stdout.strip()),
                  open(os.path.join(d, "detected.json"), "w"), indent=1)
        rows.append((sid, rc, keys))
        print("%-7s rc=%d %s" % (sid, rc, ", ".join(keys)[:200]), flush=True)
    missed = [r[0] for r in rows if r[1] != 1]
    print("seeds: %d, detected: %d, not detected: %s" % (len(rows), len(rows) - len(missed), missed))
    return 0


if __name__ == "__main__":
    sys.exit(main())
