#!/usr/bin/env python3
"""Writes seeded/INDEX.md from the meta.json / detected.json of every seeded change."""
import json, os
root = os.path.join(os.path.dirname(os.path.dirname(os.path.abspath(__file__))), "seeded")
rows = []
for sid in sorted(os.listdir(root)):
    m = os.path.join(root, sid, "meta.json")
    if not os.path.exists(m):
        continue
    meta = json.load(open(m))
    det = {}
    d = os.path.join(root, sid, "detected.json")
    if os.path.exists(d):
        det = json.load(open(d))
    keys = ", ".join(det.get("keys", [])[:4])
    rows.append("| %s | %s | %s | %s | %s |" % (sid, meta["breaks_property"].split()[0], meta["needs_to_manifest"].replace("|", "/")[:260],
                                           "yes" if det.get("detected") else ("?" if not det else "NO"), keys.replace("|", "/")[:160]))
with open(os.path.join(root, "INDEX.md"), "w") as f:
    f.write("# Seeded changes\n\nWritten by fresh sub-agents from the property text only; each compiles, passes the repository's suite and fails its own\ndemonstration (see `<id>/meta.json` for how it was confirmed and what first caught or missed it). Last regression\n(`tools/seedall.py`, quick tier) per row.\n\n| id | property | what it needs to manifest | detected | oracle keys that fired |\n|---|---|---|---|---|\n")
    f.write("\n".join(rows) + "\n")
print(len(rows), "rows")
