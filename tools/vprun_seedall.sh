#!/bin/bash
# For `vp run --with-repo -- tools/vprun_seedall.sh`: the regression over all seeded changes, run from the
# snapshot against the snapshot of /repo (so that /repo and /verif stay free). Results are informational.
set -u
if [ -n "${VP_RUN_REPO:-}" ]; then
  sed -i "s#\"/repo/#\"$VP_RUN_REPO/#" sim/*/Cargo.toml
  export VERIF_REPO=$VP_RUN_REPO
fi
tools/seedall.py "$@"
