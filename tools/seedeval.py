#!/usr/bin/env python3
"""Runs registered checks against /repo with a seeded change applied, then undoes the change.

  tools/seedeval.py <patch.diff> <check-id> [<check-id> ...] [--tier quick] [--no-miri]

Prints one line per check: id, exit code, VIOLATION / KNOWN-FINDING lines. Never leaves /repo modified."""
import json
import os
import subprocess
import sys
import time

REPO = os.environ.get("VERIF_REPO", "/repo")
VERIF = os.path.dirname(os.path.dirname(os.path.abspath(__file__)))


def sh(cmd, **kw):
    return subprocess.run(cmd, stdout=subprocess.PIPE, stderr=subprocess.STDOUT, text=True, **kw)


def main():
    args = sys.argv[1:]
    no_miri = "--no-miri" in args
    args = [a for a in args if a != "--no-miri"]
    tier = "quick"
    if "--tier" in args:
        i = args.index("--tier")
        tier = args[i + 1]
        del args[i:i + 2]
    patch, checks = os.path.abspath(args[0]), args[1:]
    st = sh(["git", "-C", REPO, "status", "--porcelain", "--untracked-files=no"]).stdout.strip()
    if st:
        print("refusing: /repo has uncommitted changes:\n" + st)
        return 2
    r = sh(["git", "-C", REPO, "apply", patch])
    if r.returncode != 0:
        print("patch does not apply:\n" + r.stdout)
        return 2
    results = []
    try:
        for c in checks:
            env = dict(os.environ)
            if no_miri:
                env["VERIF_NO_MIRI"] = "1"
            t0 = time.time()
            p = sh([os.path.join(VERIF, "check"), c, "--tier", tier], cwd=VERIF, env=env)
            lines = [l for l in p.stdout.splitlines() if l.startswith("VIOLATION") or l.startswith("KNOWN-FINDING") or l.startswith("HARNESS") or l.startswith("  key=") or l.startswith("note:")]
            results.append(dict(check=c, rc=p.returncode, wall_s=round(time.time() - t0, 1), lines=lines[:12], tail=p.stdout.splitlines()[-1:] ))
            print("%s rc=%d (%.0fs)" % (c, p.returncode, time.time() - t0))
            for l in lines[:12]:
                print("   " + l[:260])
    finally:
        sh(["git", "-C", REPO, "checkout", "--", "."])
        # new files a patch may have added
        sh(["git", "-C", REPO, "clean", "-fdq", "--", "truc", "truc_runtime", "examples", "internal"])
    print(json.dumps(results))
    return 0


if __name__ == "__main__":
    sys.exit(main())
