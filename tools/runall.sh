#!/bin/bash
# Runs every registered check (tier from $1, default quick) and prints one summary line each.
cd "$(dirname "$0")/.."
tier=${1:-quick}
rc_all=0
for p in C04 C05 C06 C07 C08 C09 C10 C11 C14 C15 C16 C19; do
  start=$(date +%s)
  out=$(./check $p --tier $tier 2>&1); rc=$?
  echo "$p rc=$rc $(( $(date +%s) - start ))s :: $(echo "$out" | tail -1 | cut -c1-160)"
  echo "$out" | grep -E "^(VIOLATION|KNOWN-FINDING|HARNESS|note:)" | cut -c1-220
  [ $rc -ne 0 ] && rc_all=1
done
exit $rc_all
