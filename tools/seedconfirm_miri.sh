#!/bin/bash
# Confirms a seeded change whose demonstration only fails under Miri:
#   seedconfirm_miri.sh <worktree> <change.diff> <demo-dir> <run|test>
set -u
WT=$1; DIFF=$2; DEMO=$3; MODE=${4:-run}
export CARGO_TARGET_DIR=$WT/target CARGO_NET_OFFLINE=true MIRIFLAGS=${MIRIFLAGS:-}
cd $WT || exit 2
git checkout -q -- .
echo "== pristine: debug"; (cd $DEMO && cargo $MODE --offline >/tmp/demo.out 2>&1; echo "exit=$?")
echo "== pristine: miri"; (cd $DEMO && cargo +nightly miri $MODE --offline >/tmp/demo.out 2>&1; echo "exit=$?")
git apply $DIFF || { echo "PATCH DOES NOT APPLY"; exit 2; }
echo "== with change: repository suite"; cargo test --workspace --no-fail-fast --offline 2>&1 | grep -E "^test result" | awk '{p+=$4; f+=$6} END {print "passed",p,"failed",f}'
echo "== with change: debug"; (cd $DEMO && cargo $MODE --offline >/tmp/demo.out 2>&1; echo "exit=$?")
echo "== with change: miri"; (cd $DEMO && cargo +nightly miri $MODE --offline >/tmp/demo.out 2>&1; echo "exit=$?"; grep -m1 "Undefined Behavior" /tmp/demo.out | cut -c1-200)
git checkout -q -- .
