#!/bin/bash
# Confirms a seeded change whose demonstration is a standalone crate run with `cargo run` / `cargo test`:
#   seedconfirm_crate.sh <worktree> <change.diff> <demo-dir> [cargo args, default: run]
set -u
WT=$1; DIFF=$2; DEMO=$3; shift 3
ARGS=${@:-run}
export CARGO_TARGET_DIR=$WT/target CARGO_NET_OFFLINE=true
cd $WT || exit 2
git checkout -q -- .
echo "== pristine demo"; (cd $DEMO && cargo $ARGS --offline >/tmp/demo.out 2>&1; echo "exit=$?"; tail -3 /tmp/demo.out | cut -c1-200)
git apply $DIFF || { echo "PATCH DOES NOT APPLY"; exit 2; }
echo "== with change: repository suite"; cargo test --workspace --no-fail-fast --offline 2>&1 | grep -E "^test result" | awk '{p+=$4; f+=$6} END {print "passed",p,"failed",f}'
echo "== with change: demo"; (cd $DEMO && cargo $ARGS --offline >/tmp/demo.out 2>&1; echo "exit=$?"; tail -4 /tmp/demo.out | cut -c1-200)
git checkout -q -- .
