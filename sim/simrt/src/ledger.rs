//! Creation / destruction ledger of instrumented values. Every instance gets a unique id
//! (1-based, below `MAX_IDS`); the ledger never panics: anomalies are counted and listed.

use std::sync::atomic::{AtomicU32, AtomicU8, AtomicUsize, Ordering::Relaxed};

pub const MAX_IDS: usize = 1 << 16;
const MAX_ANOMALIES: usize = 32;

// state: 0 = never created, 1 = live, 2.. = destroyed (n-1) times
static STATE: [AtomicU8; MAX_IDS] = [const { AtomicU8::new(0) }; MAX_IDS];
static CLASS: [AtomicU8; MAX_IDS] = [const { AtomicU8::new(0) }; MAX_IDS];
static NEXT: AtomicU32 = AtomicU32::new(1);
static LIVE: AtomicUsize = AtomicUsize::new(0);
static CREATED: AtomicUsize = AtomicUsize::new(0);
static DESTROYED: AtomicUsize = AtomicUsize::new(0);

static ANOMALY_COUNT: AtomicUsize = AtomicUsize::new(0);
static ANOMALY_KIND: [AtomicU8; MAX_ANOMALIES] = [const { AtomicU8::new(0) }; MAX_ANOMALIES];
static ANOMALY_ID: [AtomicU32; MAX_ANOMALIES] = [const { AtomicU32::new(0) }; MAX_ANOMALIES];

// zero-size tokens cannot carry an id: counted per class
pub const ZST_CLASSES: usize = 8;
static ZST_CREATED: [AtomicUsize; ZST_CLASSES] = [const { AtomicUsize::new(0) }; ZST_CLASSES];
static ZST_DESTROYED: [AtomicUsize; ZST_CLASSES] = [const { AtomicUsize::new(0) }; ZST_CLASSES];

#[derive(Clone, Copy, Debug, PartialEq, Eq)]
pub enum Anomaly {
    /// an instance was destroyed although it was already destroyed
    DoubleDestroy(u32),
    /// an id that was never created (garbage bits interpreted as a value) was destroyed
    DestroyUnknown(u32),
    /// an instance was destroyed as a value of another type than it was created as
    WrongClass(u32),
    /// ran out of ids (harness limit, not a verdict)
    IdsExhausted,
}

fn anomaly(kind: u8, id: u32) {
    let n = ANOMALY_COUNT.fetch_add(1, Relaxed);
    if n < MAX_ANOMALIES {
        ANOMALY_KIND[n].store(kind, Relaxed);
        ANOMALY_ID[n].store(id, Relaxed);
    }
}

/// Forgets everything (start of a run).
pub fn reset() {
    let n = NEXT.load(Relaxed) as usize;
    for i in 0..n.min(MAX_IDS) {
        STATE[i].store(0, Relaxed);
        CLASS[i].store(0, Relaxed);
    }
    NEXT.store(1, Relaxed);
    LIVE.store(0, Relaxed);
    CREATED.store(0, Relaxed);
    DESTROYED.store(0, Relaxed);
    ANOMALY_COUNT.store(0, Relaxed);
    for c in 0..ZST_CLASSES {
        ZST_CREATED[c].store(0, Relaxed);
        ZST_DESTROYED[c].store(0, Relaxed);
    }
}

pub fn create(class: u8) -> u32 {
    let id = NEXT.fetch_add(1, Relaxed);
    if id as usize >= MAX_IDS {
        anomaly(3, id);
        NEXT.store(MAX_IDS as u32, Relaxed);
        return (MAX_IDS - 1) as u32;
    }
    STATE[id as usize].store(1, Relaxed);
    CLASS[id as usize].store(class, Relaxed);
    LIVE.fetch_add(1, Relaxed);
    CREATED.fetch_add(1, Relaxed);
    id
}

pub fn destroy(id: u32, class: u8) {
    let i = id as usize;
    if i == 0 || i >= MAX_IDS || STATE[i].load(Relaxed) == 0 {
        anomaly(1, id);
        return;
    }
    let s = STATE[i].load(Relaxed);
    if s >= 2 {
        anomaly(0, id);
        STATE[i].store(s.saturating_add(1), Relaxed);
        return;
    }
    if CLASS[i].load(Relaxed) != class {
        anomaly(2, id);
    }
    STATE[i].store(2, Relaxed);
    LIVE.fetch_sub(1, Relaxed);
    DESTROYED.fetch_add(1, Relaxed);
}

pub fn is_live(id: u32) -> bool {
    let i = id as usize;
    i != 0 && i < MAX_IDS && STATE[i].load(Relaxed) == 1
}

pub fn is_destroyed_once(id: u32) -> bool {
    let i = id as usize;
    i != 0 && i < MAX_IDS && STATE[i].load(Relaxed) == 2
}

pub fn class_of(id: u32) -> u8 {
    CLASS[(id as usize).min(MAX_IDS - 1)].load(Relaxed)
}

pub fn live() -> usize {
    LIVE.load(Relaxed)
}

pub fn created() -> usize {
    CREATED.load(Relaxed)
}

pub fn destroyed() -> usize {
    DESTROYED.load(Relaxed)
}

pub fn next_id() -> u32 {
    NEXT.load(Relaxed)
}

/// Ids created so far that are still live.
pub fn live_ids() -> Vec<u32> {
    (1..NEXT.load(Relaxed)).filter(|&i| is_live(i)).collect()
}

pub fn anomaly_count() -> usize {
    ANOMALY_COUNT.load(Relaxed)
}

pub fn anomalies() -> Vec<Anomaly> {
    let n = ANOMALY_COUNT.load(Relaxed).min(MAX_ANOMALIES);
    (0..n)
        .map(|i| {
            let id = ANOMALY_ID[i].load(Relaxed);
            match ANOMALY_KIND[i].load(Relaxed) {
                0 => Anomaly::DoubleDestroy(id),
                1 => Anomaly::DestroyUnknown(id),
                2 => Anomaly::WrongClass(id),
                _ => Anomaly::IdsExhausted,
            }
        })
        .collect()
}

pub fn zst_create(class: u8) {
    ZST_CREATED[class as usize % ZST_CLASSES].fetch_add(1, Relaxed);
}

pub fn zst_destroy(class: u8) {
    ZST_DESTROYED[class as usize % ZST_CLASSES].fetch_add(1, Relaxed);
}

/// (created, destroyed) of zero-size tokens of a class.
pub fn zst_counts(class: u8) -> (usize, usize) {
    let c = class as usize % ZST_CLASSES;
    (ZST_CREATED[c].load(Relaxed), ZST_DESTROYED[c].load(Relaxed))
}

pub fn zst_live_total() -> isize {
    (0..ZST_CLASSES)
        .map(|c| ZST_CREATED[c].load(Relaxed) as isize - ZST_DESTROYED[c].load(Relaxed) as isize)
        .sum()
}
