//! SplitMix64-seeded xoshiro256**; the only source of randomness in the simulators.

#[derive(Clone, Debug)]
pub struct Rng {
    s: [u64; 4],
}

pub fn splitmix(x: &mut u64) -> u64 {
    *x = x.wrapping_add(0x9e37_79b9_7f4a_7c15);
    let mut z = *x;
    z = (z ^ (z >> 30)).wrapping_mul(0xbf58_476d_1ce4_e5b9);
    z = (z ^ (z >> 27)).wrapping_mul(0x94d0_49bb_1331_11eb);
    z ^ (z >> 31)
}

/// Derives an independent stream seed from (root seed, stream id, index).
pub fn derive(seed: u64, stream: u64, index: u64) -> u64 {
    let mut x = seed ^ stream.wrapping_mul(0xa076_1d64_78bd_642f);
    let a = splitmix(&mut x);
    let mut y = a ^ index.wrapping_mul(0xe703_7ed1_a0b4_28db);
    splitmix(&mut y)
}

impl Rng {
    pub fn new(seed: u64) -> Self {
        let mut x = seed;
        let s = [
            splitmix(&mut x),
            splitmix(&mut x),
            splitmix(&mut x),
            splitmix(&mut x),
        ];
        Rng { s }
    }

    pub fn next_u64(&mut self) -> u64 {
        let result = self.s[1].wrapping_mul(5).rotate_left(7).wrapping_mul(9);
        let t = self.s[1] << 17;
        self.s[2] ^= self.s[0];
        self.s[3] ^= self.s[1];
        self.s[1] ^= self.s[2];
        self.s[0] ^= self.s[3];
        self.s[2] ^= t;
        self.s[3] = self.s[3].rotate_left(45);
        result
    }

    /// Uniform in `0..n` (n > 0).
    pub fn below(&mut self, n: usize) -> usize {
        debug_assert!(n > 0);
        ((self.next_u64() >> 11) % (n as u64)) as usize
    }

    /// Uniform in `lo..=hi`.
    pub fn range(&mut self, lo: usize, hi: usize) -> usize {
        lo + self.below(hi - lo + 1)
    }

    pub fn chance(&mut self, num: usize, den: usize) -> bool {
        self.below(den) < num
    }

    pub fn pick<'a, T>(&mut self, xs: &'a [T]) -> &'a T {
        &xs[self.below(xs.len())]
    }

    /// Index drawn with the given integer weights (not all zero).
    pub fn weighted(&mut self, w: &[usize]) -> usize {
        let total: usize = w.iter().sum();
        let mut x = self.below(total);
        for (i, &wi) in w.iter().enumerate() {
            if x < wi {
                return i;
            }
            x -= wi;
        }
        w.len() - 1
    }
}
