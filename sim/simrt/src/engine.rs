//! SIM-R engine: runs an operation history against one generated record definition and judges
//! every step against a reference model that knows nothing about offsets or bytes.
//!
//! World   = up to `MAX_WORLD` live records, each in a placement (inline, boxed, shifted box).
//! Model   = per record: variant + per datum `Absent | Uninit | Val(instance, payload)`.
//! Oracles = read-back equality (C04), conversion semantics (C05), conservation of instances and
//!           heap bytes (C06), alignment and bounds of every reference at the record's actual
//!           address (C07), refinement of serde's tuple implementation (C15), clone equality,
//!           independence and panic safety (C16).
//!
//! Operations address records and fields by raw integers taken modulo what exists, so any
//! sub-sequence of a history is again a valid history (this is what makes minimisation simple).

use crate::alloc;
use crate::fio::{FaultyReader, FaultyWriter, IoPlan, NEVER};
use crate::ledger;
use crate::rec::*;
use crate::rng::{derive, Rng};
use crate::tok::{self, InjectedPanic, Obs};
use crate::{fold, fold_str, FNV_INIT};
use serde::{Deserialize, Serialize};
use std::collections::{BTreeMap, BTreeSet};
use std::panic::{catch_unwind, AssertUnwindSafe};

pub const MAX_WORLD: usize = 4;

// ---------------------------------------------------------------------------------------------
// operations
// ---------------------------------------------------------------------------------------------

#[derive(Serialize, Deserialize, Clone, Copy, Debug, PartialEq, Eq)]
pub enum StreamMut {
    None,
    /// cut the stream after `k % (len + 1)` bytes
    Truncate(u16),
    /// flip bit `k % (8 * len)`
    BitFlip(u16),
    /// one more element than the variant has fields
    Extra,
    /// the last element is missing
    Missing,
    /// element `j % n` is replaced by a value of another type (JSON only)
    WrongType(u8),
}

#[derive(Serialize, Deserialize, Clone, Debug, PartialEq, Eq)]
pub enum Op {
    New {
        v: u8,
        uninit: bool,
        place: u8,
        /// construct through the generated `From<Unpacked..>` impl
        #[serde(default)]
        via_from: bool,
    },
    Get { r: u8, stack: bool },
    Set { r: u8, f: u8 },
    Mutate { r: u8, f: u8 },
    Move { r: u8, place: u8 },
    Convert { r: u8, form: u8 },
    /// converts up to the last variant, forms taken two bits at a time
    Chain { r: u8, forms: u32 },
    Unpack { r: u8 },
    Drop { r: u8 },
    Clone { r: u8, panic_at: u8, place: u8 },
    CloneFrom { dst: u8, src: u8, panic_at: u8 },
    Encode { r: u8, fmt: Fmt, io: IoPlan, enc_fail_at: u8 },
    Decode { r: u8, fmt: Fmt, mutation: StreamMut, io: IoPlan, de_fail_at: u8, place: u8 },
    VecConvert {
        r: u8,
        n: u8,
        form: u8,
        script: Vec<VAct>,
        spare: u8,
        /// also move the world's records of that variant into the vector (records with a past: written,
        /// mutated, cloned, converted, partly uninitialised), not only fresh ones
        #[serde(default)]
        take_world: bool,
    },
    /// clone (or clone_from onto a fresh twin) with a panic injected at the clone of every field in turn
    CloneSweep { r: u8, from: bool },
    /// decode the record's own encoding with every position of one fault kind in turn:
    /// 0 = truncated after every byte, 1 = n-th element decode fails, 2 = reader error at every byte,
    /// 3 = every bit flipped (every `stride`-th bit for long streams)
    DecodeSweep { r: u8, fmt: Fmt, kind: u8 },
    /// one operation (kind: 0 convert with form `a`, 1 drop, 2 set field `a`, 3 unpack, 4 chain with
    /// forms from `a`) during which the destructor of the n-th token destroyed panics. If the
    /// destructor fires the history ends there and only "nothing is destroyed twice" is judged.
    DropPanic { n: u8, kind: u8, r: u8, a: u8 },
}

impl Op {
    pub fn name(&self) -> &'static str {
        match self {
            Op::New { uninit: false, .. } => "new",
            Op::New { uninit: true, .. } => "new_uninit",
            Op::Get { .. } => "get",
            Op::Set { .. } => "set",
            Op::Mutate { .. } => "mutate",
            Op::Move { .. } => "move",
            Op::Convert { .. } => "convert",
            Op::Chain { .. } => "chain",
            Op::Unpack { .. } => "unpack",
            Op::Drop { .. } => "drop",
            Op::Clone { .. } => "clone",
            Op::CloneFrom { .. } => "clone_from",
            Op::Encode { .. } => "encode",
            Op::Decode { .. } => "decode",
            Op::VecConvert { .. } => "vec_convert",
            Op::CloneSweep { from: false, .. } => "clone",
            Op::CloneSweep { from: true, .. } => "clone_from",
            Op::DecodeSweep { .. } => "decode",
            Op::DropPanic { .. } => "drop_panic",
        }
    }
}

#[derive(Serialize, Deserialize, Clone, Copy, Debug, PartialEq, Eq)]
pub struct RunCfg {
    /// fault arm: panics / errors / stream faults are injected; false = strict fault-free arm
    pub faults: bool,
    /// never read a never-written may-be-uninit field: fields skipped by `new_uninit` and by the
    /// mandatory-only conversions are written right away (Miri arm)
    pub init_skipped: bool,
}

#[derive(Serialize, Deserialize, Clone, Debug, PartialEq, Eq)]
pub struct Case {
    pub def: String,
    pub cap: String,
    pub cfg: RunCfg,
    pub ops: Vec<Op>,
}

impl Case {
    pub fn shape_hash(&self) -> u64 {
        let mut h = FNV_INIT;
        fold_str(&mut h, &self.def);
        fold_str(&mut h, &self.cap);
        fold_str(&mut h, &serde_json::to_string(&self.ops).unwrap());
        fold(&mut h, self.cfg.faults as u64);
        h
    }
}

#[derive(Serialize, Deserialize, Clone, Debug, Default)]
pub struct Violation {
    pub property: String,
    pub clause: String,
    pub message: String,
    pub step: usize,
    pub op: String,
}

#[derive(Default, Debug)]
pub struct Outcome {
    pub violations: Vec<Violation>,
    pub hash: u64,
    pub steps: u64,
    pub ops: BTreeMap<&'static str, u64>,
    pub skipped: u64,
    pub faults: BTreeMap<String, u64>,
    pub probes: BTreeMap<&'static str, u64>,
    /// distinct (variant, ownership vector, last operation) states met
    pub states: BTreeSet<u64>,
}

// ---------------------------------------------------------------------------------------------
// model
// ---------------------------------------------------------------------------------------------

#[derive(Clone, Copy, Debug, PartialEq, Eq)]
enum FState {
    Absent,
    Uninit,
    Val(Obs),
}

#[derive(Clone, Debug)]
struct ModelRec {
    variant: usize,
    fields: Vec<FState>,
    /// which kind of operation last wrote this record (decides which property a mismatch belongs to)
    last: &'static str,
}

#[repr(C)]
struct Shift<R> {
    pad: u8,
    rec: R,
}

enum Slot<R> {
    Inline(R),
    Boxed(Box<R>),
    Shifted(Box<Shift<R>>),
}

impl<R> Slot<R> {
    fn place(r: R, place: u8) -> Self {
        match place % 3 {
            0 => Slot::Inline(r),
            1 => Slot::Boxed(Box::new(r)),
            _ => Slot::Shifted(Box::new(Shift { pad: 0, rec: r })),
        }
    }
    fn get(&self) -> &R {
        match self {
            Slot::Inline(r) => r,
            Slot::Boxed(b) => b,
            Slot::Shifted(b) => &b.rec,
        }
    }
    fn get_mut(&mut self) -> &mut R {
        match self {
            Slot::Inline(r) => r,
            Slot::Boxed(b) => b,
            Slot::Shifted(b) => &mut b.rec,
        }
    }
    fn take(self) -> R {
        match self {
            Slot::Inline(r) => r,
            Slot::Boxed(b) => *b,
            Slot::Shifted(b) => {
                let Shift { pad: _, rec } = *b;
                rec
            }
        }
    }
    fn kind(&self) -> &'static str {
        match self {
            Slot::Inline(_) => "place.inline",
            Slot::Boxed(_) => "place.box",
            Slot::Shifted(_) => "place.shifted_box",
        }
    }
}

struct Live<R> {
    slot: Slot<R>,
    model: ModelRec,
}

struct Engine<'a, R: Rec> {
    meta: &'static DefMeta,
    cfg: RunCfg,
    world: Vec<Live<R>>,
    src: Src,
    out: &'a mut Outcome,
    step: usize,
    op_name: &'static str,
    scratch: ObsList,
    addr_scratch: Vec<AddrObs>,
    /// a model-dependent oracle fired at an earlier step
    tainted: bool,
    tainted_next: bool,
    /// an injected destructor panic fired: the history stops, leaks are not judged
    halted: bool,
}

fn prop_of_last(last: &str) -> &'static str {
    match last {
        "convert" | "chain" | "vec_convert" => "C05",
        "clone" | "clone_from" => "C16",
        "decode" => "C15",
        _ => "C04",
    }
}

impl<'a, R: Rec> Engine<'a, R> {
    /// Oracles that do not consult the reference model (shadow anomalies, addresses of references):
    /// they stay meaningful after another oracle has fired, when the model can no longer be trusted.
    fn model_independent(clause: &str) -> bool {
        clause.contains("/hook-") || clause.starts_with("C07/ref-aligned") || clause.starts_with("C07/in-bounds") || clause.starts_with("C07/record-aligned")
    }

    fn v(&mut self, clause: &str, message: String) {
        if self.out.violations.len() >= 12 || (self.tainted && !Self::model_independent(clause)) {
            return;
        }
        if !Self::model_independent(clause) {
            // from here on only the model-independent oracles keep judging this history
            self.tainted_next = true;
        }
        let step = self.step;
        let op = self.op_name.to_string();
        alloc::harness(|| {
            let property = clause.split('/').next().unwrap().to_string();
            self.out.violations.push(Violation { property, clause: clause.to_string(), message: message.clone(), step, op });
        });
        drop(message);
    }

    fn probe(&mut self, name: &'static str) {
        alloc::harness(|| *self.out.probes.entry(name).or_default() += 1);
    }

    fn fault(&mut self, name: &str) {
        alloc::harness(|| *self.out.faults.entry(name.to_string()).or_default() += 1);
    }

    fn nfields(&self) -> usize {
        self.meta.data.len()
    }

    fn skip_of(model: &ModelRec) -> Vec<bool> {
        alloc::harness(|| model.fields.iter().map(|f| matches!(f, FState::Uninit)).collect())
    }

    fn idx(&self, r: u8) -> Option<usize> {
        if self.world.is_empty() {
            None
        } else {
            Some(r as usize % self.world.len())
        }
    }

    // ---- oracles -------------------------------------------------------------------------

    /// read-back through `&` and `&mut` accessors, alignment and bounds of every reference
    fn verify(&mut self, i: usize, bystander: bool) {
        let skip = Self::skip_of(&self.world[i].model);
        for pass in 0..2 {
            let mut got = std::mem::take(&mut self.scratch);
            got.clear();
            if pass == 0 {
                self.world[i].slot.get().observe(&skip, &mut got);
            } else {
                self.world[i].slot.get_mut().observe_mut(&skip, &mut got);
            }
            let model = self.world[i].model.clone();
            let fields = self.meta.variants[model.variant].fields;
            let expected: Vec<(usize, Obs)> = alloc::harness(|| {
                fields
                    .iter()
                    .filter_map(|&d| match model.fields[d] {
                        FState::Val(o) => Some((d, o)),
                        _ => None,
                    })
                    .collect()
            });
            let got_pairs: Vec<(usize, Obs)> = alloc::harness(|| got.iter().map(|&(_, d, o)| (d, o)).collect());
            if got_pairs != expected {
                let prop = if bystander { "C04" } else { prop_of_last(model.last) };
                let what = if bystander { "bystander-intact" } else if prop == "C04" { "read-back" } else if prop == "C05" { "carried-or-added" } else if prop == "C16" { "equal" } else { "decode-values" };
                let diff: Vec<String> = alloc::harness(|| {
                    expected
                        .iter()
                        .zip(got_pairs.iter())
                        .filter(|(e, g)| e != g)
                        .map(|(e, g)| format!("{}: stored {:?}, read {:?}", self.meta.data[e.0].name, e.1, g.1))
                        .collect()
                });
                let msg = alloc::harness(|| format!("record #{} (variant {}, last {}) via {}: {}", i, model.variant, model.last, if pass == 0 { "& accessors" } else { "&mut accessors" }, diff.join("; ")));
                self.v(&format!("{}/{}", prop, what), msg);
                alloc::harness(|| {
                    drop(diff);
                });
            }
            alloc::harness(|| {
                drop(expected);
                drop(got_pairs);
            });
            self.scratch = got;
        }
        // references: aligned and inside the capacity at the record's actual address
        let mut addrs = std::mem::take(&mut self.addr_scratch);
        addrs.clear();
        self.world[i].slot.get().addrs(&mut addrs);
        for a in addrs.iter() {
            if a.addr % a.align != 0 {
                let m = alloc::harness(|| format!("reference to {} (align {}) at record base+{} is misaligned: record at address = {} mod {}", self.meta.data[a.datum].name, a.align, a.addr.wrapping_sub(a.base), a.base % a.align.max(1), a.align));
                self.v("C07/ref-aligned", m);
            }
            // zero-size data included: an access at an offset beyond the capacity is outside the record
            if a.addr < a.base || a.addr + a.size > a.base + R::CAP {
                let m = alloc::harness(|| format!("reference to {} covers bytes {}..{} of a record of capacity {}", self.meta.data[a.datum].name, a.addr.wrapping_sub(a.base), a.addr.wrapping_sub(a.base) + a.size, R::CAP));
                self.v("C07/in-bounds", m);
            }
            if a.base % a.rec_align != 0 {
                self.v("C07/record-aligned", alloc::harness(|| format!("record of alignment {} lives at an address = {} mod {}", a.rec_align, a.base % a.rec_align, a.rec_align)));
            }
            if a.base % (2 * a.rec_align) != 0 {
                self.probe("record_at_minimal_alignment");
            }
        }
        self.addr_scratch = addrs;
        alloc::harness(|| drop(skip));
    }

    fn verify_all(&mut self, touched: &[usize]) {
        for i in 0..self.world.len() {
            let bystander = !touched.contains(&i);
            self.verify(i, bystander);
        }
    }

    /// conservation: what the ledger says is alive is exactly what the model says the world owns
    fn conservation(&mut self, extra_props: &[&str]) {
        let mut expected = 0usize;
        let mut counted: BTreeMap<u8, isize> = BTreeMap::new();
        for l in &self.world {
            for (d, f) in l.model.fields.iter().enumerate() {
                if let FState::Val(o) = f {
                    let inst = self.meta.data[d].instances;
                    if inst == 1 && o.inst != 0 {
                        expected += 1;
                    } else if inst > 1 {
                        expected += inst;
                    }
                    if self.meta.data[d].counted_class != 0 {
                        *counted.entry(self.meta.data[d].counted_class).or_default() += 1;
                    }
                }
            }
        }
        let live = ledger::live();
        let mut problems: Vec<(String, String)> = Vec::new();
        if live != expected {
            let kind = if live > expected { "leak" } else { "lost" };
            problems.push((kind.to_string(), format!("{} instances alive, the records in the world own {} (alive ids: {:?})", live, expected, ledger::live_ids())));
        }
        for class in 1..ledger::ZST_CLASSES as u8 {
            let (c, d) = ledger::zst_counts(class);
            let exp = counted.get(&class).copied().unwrap_or(0);
            if c as isize - d as isize != exp {
                problems.push(("zst".to_string(), format!("{} zero-size tokens of class {} alive, the records own {}", c as isize - d as isize, class, exp)));
            }
        }
        if ledger::anomaly_count() != 0 {
            problems.push(("double-destroy".to_string(), format!("{:?}", ledger::anomalies())));
        }
        for (kind, msg) in problems {
            self.v(&format!("C06/{}", kind), msg.clone());
            for p in extra_props {
                self.v(&format!("{}/{}", p, kind), msg.clone());
            }
        }
    }

    fn expect_destroyed(&mut self, what: &str, clause: &str, o: Obs, d: usize) {
        if self.meta.data[d].tracked && o.inst != 0 && !ledger::is_destroyed_once(o.inst) {
            let state = if ledger::is_live(o.inst) { "still alive" } else { "destroyed more than once" };
            let m = format!("{}: instance {} of field {} is {}", what, o.inst, self.meta.data[d].name, state);
            self.v(clause, m);
        }
    }

    fn record_state(&mut self, i: usize) {
        let m = &self.world[i].model;
        let mut h = FNV_INIT;
        fold(&mut h, m.variant as u64);
        for f in &m.fields {
            fold(&mut h, match f {
                FState::Absent => 0,
                FState::Uninit => 1,
                FState::Val(_) => 2,
            });
        }
        fold_str(&mut h, m.last);
        fold_str(&mut h, self.world[i].slot.kind());
        alloc::harness(|| {
            self.out.states.insert(h);
        });
    }

    /// hooks-on arm: anomalies seen by the ownership shadow inside `truc_runtime::data`
    #[cfg(truc_verif_hooks)]
    fn drain_hooks(&mut self) {
        let anomalies = alloc::harness(truc_runtime::verif::take_anomalies);
        for a in anomalies.iter() {
            let props: &[&str] = match a.kind {
                "store-onto-owned-value" | "buffer-dropped-owning-value" => &["C07", "C06"],
                _ => &["C07"],
            };
            for p in props {
                let clause = alloc::harness(|| format!("{}/hook-{}", p, a.kind));
                let msg = alloc::harness(|| a.detail.clone());
                self.v(&clause, msg);
                alloc::harness(|| drop(clause));
            }
        }
        alloc::harness(|| drop(anomalies));
    }

    #[cfg(not(truc_verif_hooks))]
    fn drain_hooks(&mut self) {}

    // ---- operations ------------------------------------------------------------------------

    fn model_from_made(&mut self, variant: usize, last: &'static str, made: &ObsList, tag: usize) -> ModelRec {
        let n = self.nfields();
        alloc::harness(|| {
            let mut fields = vec![FState::Absent; n];
            for &d in self.meta.variants[variant].fields {
                fields[d] = match made.iter().find(|(t, dd, _)| *t == tag && *dd == d) {
                    Some((_, _, o)) => FState::Val(*o),
                    None => FState::Uninit,
                };
            }
            ModelRec { variant, fields, last }
        })
    }

    fn check_uninit_legal(&mut self, model: &ModelRec, allowed: bool) {
        for (d, f) in model.fields.iter().enumerate() {
            if *f == FState::Uninit && !(allowed && self.meta.data[d].uninit_ok) {
                self.v("C04/constructor-skipped-field", format!("field {} was not given a value by the driver although it is mandatory here (harness/glue disagreement with the generated interface)", self.meta.data[d].name));
            }
        }
    }

    /// Miri arm: write the fields a mandatory-only form left uninitialised
    fn init_skipped(&mut self, i: usize) {
        let uninit: Vec<usize> = alloc::harness(|| self.world[i].model.fields.iter().enumerate().filter(|(_, f)| **f == FState::Uninit).map(|(d, _)| d).collect());
        for &d in &uninit {
            self.src.take_made();
            self.world[i].slot.get_mut().set(d, &mut self.src);
            let made = self.src.take_made();
            if let Some((_, _, o)) = made.first() {
                self.world[i].model.fields[d] = FState::Val(*o);
            }
            alloc::harness(|| drop(made));
            self.probe("uninit_then_written");
        }
        alloc::harness(|| drop(uninit));
    }

    fn push_record(&mut self, rec: R, model: ModelRec, place: u8) -> usize {
        while self.world.len() >= MAX_WORLD {
            self.do_drop(0);
        }
        let slot = Slot::place(rec, place);
        let kind = slot.kind();
        self.fault(kind);
        alloc::harness(|| self.world.push(Live { slot, model }));
        self.world.len() - 1
    }

    fn do_new(&mut self, v: u8, uninit: bool, place: u8, via_from: bool) {
        let variant = v as usize % self.meta.variants.len();
        self.src.take_made();
        let rec = if uninit { R::new_uninit(variant, &mut self.src, via_from) } else { R::new_full(variant, &mut self.src, via_from) };
        if via_from {
            self.probe("constructed_via_from");
        }
        let made = self.src.take_made();
        let model = self.model_from_made(variant, "new", &made, 0);
        alloc::harness(|| drop(made));
        self.check_uninit_legal(&model, uninit);
        if model.fields.iter().any(|f| *f == FState::Uninit) {
            self.probe("record_with_uninit_field");
        }
        let i = self.push_record(rec, model, place);
        if self.cfg.init_skipped {
            self.init_skipped(i);
        }
        self.verify_all(&[i]);
        self.record_state(i);
    }

    fn field_of(&self, i: usize, f: u8) -> Option<usize> {
        let fields = self.meta.variants[self.world[i].model.variant].fields;
        if fields.is_empty() {
            None
        } else {
            Some(fields[f as usize % fields.len()])
        }
    }

    fn do_set(&mut self, r: u8, f: u8) {
        let Some(i) = self.idx(r) else { return self.skip() };
        let Some(d) = self.field_of(i, f) else { return self.skip() };
        let old = self.world[i].model.fields[d];
        self.src.take_made();
        self.world[i].slot.get_mut().set(d, &mut self.src);
        let made = self.src.take_made();
        let new = made.first().map(|x| x.2).unwrap_or_default();
        alloc::harness(|| drop(made));
        if let FState::Val(o) = old {
            self.expect_destroyed("value replaced through the mutable accessor", "C06/replaced-not-destroyed", o, d);
        } else {
            self.probe("uninit_then_written");
        }
        self.world[i].model.fields[d] = FState::Val(new);
        self.world[i].model.last = "set";
        self.verify_all(&[i]);
        self.record_state(i);
    }

    fn do_mutate(&mut self, r: u8, f: u8) {
        let Some(i) = self.idx(r) else { return self.skip() };
        let Some(d) = self.field_of(i, f) else { return self.skip() };
        let FState::Val(old) = self.world[i].model.fields[d] else { return self.skip() };
        let mut pay = self.src.fresh();
        if pay % 5 == 0 {
            pay += 1;
        }
        let got = self.world[i].slot.get_mut().mutate(d, pay);
        let is_none_option = old.pay == u64::MAX - 1 && self.meta.data[d].key == "opttok";
        let expected = if is_none_option || self.meta.data[d].zst { old } else { Obs { inst: old.inst, pay: (self.meta.data[d].norm)(pay) } };
        if got != expected {
            self.v("C04/mutate", format!("in-place write of {} through {}_mut(): accessor now reads {:?}, expected {:?}", pay, self.meta.data[d].name, got, expected));
        }
        self.world[i].model.fields[d] = FState::Val(expected);
        self.world[i].model.last = "mutate";
        self.verify_all(&[i]);
    }

    fn do_move(&mut self, r: u8, place: u8) {
        let Some(i) = self.idx(r) else { return self.skip() };
        let Live { slot, model } = self.world.remove(i);
        let rec = slot.take();
        let slot = Slot::place(rec, place);
        self.fault(slot.kind());
        alloc::harness(|| self.world.insert(i, Live { slot, model }));
        self.verify_all(&[i]);
        self.record_state(i);
    }

    fn do_get(&mut self, r: u8, stack: bool) {
        let Some(i) = self.idx(r) else { return self.skip() };
        if stack {
            // move the record into a local (a stack slot), look at it there, move it back
            let Live { slot, model } = self.world.remove(i);
            let local = slot.take();
            self.fault("place.stack");
            alloc::harness(|| self.world.insert(i, Live { slot: Slot::Inline(local), model }));
        }
        self.verify(i, false);
    }

    /// converts record `i` to the next variant; returns false if it is at the last variant
    fn convert_one(&mut self, i: usize, form: Form, last: &'static str) -> bool {
        let v = self.world[i].model.variant;
        if v + 1 >= self.meta.variants.len() {
            return false;
        }
        let Live { slot, model } = self.world.remove(i);
        let rec = slot.take();
        let skip = Self::skip_of(&model);
        self.src.take_made();
        let mut removed: ObsList = alloc::harness(|| Vec::with_capacity(16));
        let new_rec = rec.convert(form, &mut self.src, &skip, &mut removed);
        let made = self.src.take_made();
        let new_model = self.converted_model(&model, form, &made, &removed, 0, last, &[]);
        alloc::harness(|| {
            drop(made);
            drop(removed);
            drop(skip);
        });
        if new_rec.variant() != v + 1 {
            self.v("C05/variant", format!("conversion of variant {} produced variant {}", v, new_rec.variant()));
        }
        alloc::harness(|| self.world.insert(i, Live { slot: Slot::Inline(new_rec), model: new_model }));
        if self.cfg.init_skipped {
            self.init_skipped(i);
        }
        true
    }

    /// the specified effect of a conversion on the model (+ checks on removed data)
    fn converted_model(&mut self, model: &ModelRec, form: Form, made: &ObsList, removed: &ObsList, tag: usize, last: &'static str, unobserved: &[bool]) -> ModelRec {
        let v = model.variant;
        let next = &self.meta.variants[v + 1];
        let mut new_model = alloc::harness(|| model.clone());
        new_model.variant = v + 1;
        new_model.last = last;
        let mut shares = false;
        for &d in next.minus {
            let old = model.fields[d];
            new_model.fields[d] = FState::Absent;
            if let FState::Val(o) = old {
                if form.out() && !unobserved.get(d).copied().unwrap_or(false) {
                    match removed.iter().find(|(t, dd, _)| *t == tag && *dd == d) {
                        Some((_, _, got)) if *got == o => {}
                        other => {
                            let m = format!("removed field {} held {:?}, the conversion handed back {:?}", self.meta.data[d].name, o, other.map(|x| x.2));
                            self.v("C05/removed-returned", m);
                        }
                    }
                }
                // plain forms destroy removed data; the other forms hand it back and the driver dropped it
                self.expect_destroyed(if form.out() { "removed value handed back and dropped by the driver" } else { "removed value must be destroyed by the conversion" }, "C06/removed-not-destroyed", o, d);
            }
            for &p in next.plus {
                let (a, b) = (&self.meta.data[d], &self.meta.data[p]);
                if a.size > 0 && b.size > 0 && a.offset < b.offset + b.size && b.offset < a.offset + a.size {
                    shares = true;
                }
            }
        }
        if shares {
            self.probe("removed_and_added_share_bytes");
        }
        for &d in next.plus {
            new_model.fields[d] = match made.iter().find(|(t, dd, _)| *t == tag && *dd == d) {
                Some((_, _, o)) => FState::Val(*o),
                None => {
                    if !(form.uninit() && self.meta.data[d].uninit_ok) {
                        self.v("C05/added-skipped", format!("added field {} was not supplied although the form requires it (harness/glue disagreement)", self.meta.data[d].name));
                    }
                    FState::Uninit
                }
            };
        }
        new_model
    }

    fn do_convert(&mut self, r: u8, form: u8) {
        let Some(i) = self.idx(r) else { return self.skip() };
        let form = Form::from_index(form as usize);
        if !self.convert_one(i, form, "convert") {
            return self.skip();
        }
        self.fault(match form {
            Form::Full => "form.full",
            Form::Uninit => "form.uninit",
            Form::FullOut => "form.full_out",
            Form::UninitOut => "form.uninit_out",
        });
        self.verify_all(&[i]);
        self.record_state(i);
    }

    fn do_chain(&mut self, r: u8, forms: u32) {
        let Some(i) = self.idx(r) else { return self.skip() };
        let mut k = 0;
        let mut any = false;
        while self.convert_one(i, Form::from_index(((forms >> (2 * k)) & 3) as usize), "chain") {
            any = true;
            k = (k + 1) % 16;
            self.verify(i, false);
            self.record_state(i);
        }
        if !any {
            return self.skip();
        }
        self.probe("chain_to_last_variant");
        self.verify_all(&[i]);
    }

    fn do_unpack(&mut self, r: u8) {
        let Some(i) = self.idx(r) else { return self.skip() };
        let Live { slot, model } = self.world.remove(i);
        let rec = slot.take();
        let skip = Self::skip_of(&model);
        let mut got: ObsList = alloc::harness(|| Vec::with_capacity(16));
        rec.unpack(&skip, &mut got);
        let expected: Vec<(usize, Obs)> = alloc::harness(|| {
            self.meta.variants[model.variant]
                .fields
                .iter()
                .filter_map(|&d| match model.fields[d] {
                    FState::Val(o) => Some((d, o)),
                    _ => None,
                })
                .collect()
        });
        let got_pairs: Vec<(usize, Obs)> = alloc::harness(|| got.iter().map(|&(_, d, o)| (d, o)).collect());
        if got_pairs != expected {
            let m = format!("unpack of variant {} returned {:?}, the record held {:?}", model.variant, got_pairs, expected);
            self.v("C04/unpack", m);
        }
        for (d, o) in expected.iter() {
            self.expect_destroyed("value handed back by unpack and dropped by the driver", "C06/unpacked-not-destroyed-once", *o, *d);
        }
        alloc::harness(|| {
            drop(expected);
            drop(got_pairs);
            drop(got);
            drop(skip);
            drop(model);
        });
        self.verify_all(&[]);
    }

    fn do_drop(&mut self, r: u8) {
        let Some(i) = self.idx(r) else { return self.skip() };
        let Live { slot, model } = self.world.remove(i);
        drop(slot);
        for (d, f) in model.fields.iter().enumerate() {
            if let FState::Val(o) = f {
                self.expect_destroyed("record dropped", "C06/drop-not-destroyed-once", *o, d);
            }
        }
        alloc::harness(|| drop(model));
    }

    fn skip(&mut self) {
        self.out.skipped += 1;
    }

    /// number of field clones of a record that pass through a token `Clone` (fault points)
    fn clone_points(&self, model: &ModelRec) -> usize {
        self.meta.variants[model.variant]
            .fields
            .iter()
            .map(|&d| {
                let m = &self.meta.data[d];
                match model.fields[d] {
                    FState::Val(o) => {
                        if m.instances > 1 {
                            m.instances
                        } else if (m.tracked && o.inst != 0) || m.counted_class != 0 {
                            1
                        } else {
                            0
                        }
                    }
                    _ => 0,
                }
            })
            .sum()
    }

    fn do_clone(&mut self, r: u8, panic_at: u8, place: u8) {
        if !self.meta.has_clone {
            return self.skip();
        }
        let Some(i) = self.idx(r) else { return self.skip() };
        let model = alloc::harness(|| self.world[i].model.clone());
        if self.cfg.init_skipped && model.fields.iter().any(|f| *f == FState::Uninit) {
            return self.skip();
        }
        let points = self.clone_points(&model);
        let armed = if self.cfg.faults && panic_at != 0 && points != 0 { 1 + (panic_at as usize - 1) % points } else { 0 };
        tok::plan_reset();
        tok::plan_clone_panic(armed);
        let next_before = ledger::next_id();
        let result = catch_unwind(AssertUnwindSafe(|| self.world[i].slot.get().clone_rec()));
        let fired = tok::plan_fired();
        tok::plan_reset();
        match result {
            Ok(copy) => {
                if armed != 0 && fired != 0 {
                    self.v("C16/panic-swallowed", format!("the clone of field #{} panicked but clone() returned normally", armed));
                } else if armed != 0 {
                    self.v("C16/field-not-cloned", format!("clone() returned after fewer than {} field clones although the record holds {} values with a Clone impl of their own", armed, points));
                }
                // equal fields, fresh instances
                let skip = Self::skip_of(&model);
                let mut got: ObsList = alloc::harness(|| Vec::with_capacity(16));
                copy.observe(&skip, &mut got);
                let mut new_model = alloc::harness(|| model.clone());
                new_model.last = "clone";
                for &(_, d, o) in got.iter() {
                    if let FState::Val(s) = model.fields[d] {
                        if o.pay != s.pay {
                            self.v("C16/equal", format!("field {} of the clone reads {:?}, the source holds {:?}", self.meta.data[d].name, o, s));
                        }
                        if self.meta.data[d].tracked && s.inst != 0 && (o.inst == s.inst || o.inst < next_before || !ledger::is_live(o.inst)) {
                            self.v("C16/independent", format!("field {} of the clone is instance {} (source instance {}): not a fresh live value", self.meta.data[d].name, o.inst, s.inst));
                        }
                        new_model.fields[d] = FState::Val(o);
                    }
                }
                alloc::harness(|| {
                    drop(got);
                    drop(skip);
                });
                let j = self.push_record(copy, new_model, place);
                let touched = [j, self.world.len().saturating_sub(2).min(j)];
                self.verify_all(&touched);
                self.record_state(j);
                self.probe("clone_ok");
            }
            Err(payload) => {
                let injected = payload.downcast_ref::<InjectedPanic>().copied();
                drop(payload);
                if armed == 0 || injected.is_none() {
                    self.v("C16/unexpected-panic", format!("clone() panicked (injected: {:?}, armed: {})", injected, armed));
                } else {
                    self.fault("clone.panic");
                    if armed == points {
                        self.probe("clone_panic_on_last_field");
                    }
                }
                // the source is intact, nothing cloned so far survives (conservation below)
                self.verify_all(&[]);
            }
        }
        alloc::harness(|| drop(model));
    }

    fn do_clone_from(&mut self, dst: u8, src: u8, panic_at: u8) {
        if !self.meta.has_clone || self.world.len() < 2 {
            return self.skip();
        }
        let si = src as usize % self.world.len();
        let sv = self.world[si].model.variant;
        // a target of the same variant, different from the source
        let candidates: Vec<usize> = alloc::harness(|| (0..self.world.len()).filter(|&k| k != si && self.world[k].model.variant == sv).collect());
        if candidates.is_empty() {
            return self.skip();
        }
        let di = candidates[dst as usize % candidates.len()];
        alloc::harness(|| drop(candidates));
        let smodel = alloc::harness(|| self.world[si].model.clone());
        let dmodel = alloc::harness(|| self.world[di].model.clone());
        if self.cfg.init_skipped && (smodel.fields.iter().any(|f| *f == FState::Uninit) || dmodel.fields.iter().any(|f| *f == FState::Uninit)) {
            return self.skip();
        }
        let points = self.clone_points(&smodel);
        let armed = if self.cfg.faults && panic_at != 0 && points != 0 { 1 + (panic_at as usize - 1) % points } else { 0 };
        tok::plan_reset();
        tok::plan_clone_panic(armed);
        let next_before = ledger::next_id();
        let result = {
            let (a, b) = if di < si {
                let (lo, hi) = self.world.split_at_mut(si);
                (&mut lo[di], &hi[0])
            } else {
                let (lo, hi) = self.world.split_at_mut(di);
                (&mut hi[0], &lo[si])
            };
            let target = a.slot.get_mut();
            let source = b.slot.get();
            catch_unwind(AssertUnwindSafe(|| target.clone_from_rec(source)))
        };
        let fired = tok::plan_fired();
        tok::plan_reset();
        let panicked = result.is_err();
        if let Err(payload) = result {
            let injected = payload.downcast_ref::<InjectedPanic>().copied();
            drop(payload);
            if armed == 0 || injected.is_none() {
                self.v("C16/unexpected-panic", format!("clone_from() panicked (injected: {:?}, armed: {})", injected, armed));
            } else {
                self.fault("clonefrom.panic");
            }
        } else if armed != 0 && fired != 0 {
            self.v("C16/panic-swallowed", format!("the clone of field #{} panicked but clone_from() returned normally", armed));
        } else if armed != 0 {
            self.v("C16/field-not-cloned", format!("clone_from() returned after fewer than {} field clones although the source holds {} values with a Clone impl of their own", armed, points));
        }
        // what the target holds now: field by field the new value, or (only after a panic) the old one
        let mut skip = Self::skip_of(&dmodel);
        for (d, f) in smodel.fields.iter().enumerate() {
            if *f == FState::Uninit {
                skip[d] = true;
            }
        }
        let mut got: ObsList = alloc::harness(|| Vec::with_capacity(16));
        self.world[di].slot.get().observe(&skip, &mut got);
        let mut new_model = alloc::harness(|| dmodel.clone());
        new_model.last = "clone_from";
        for &d in self.meta.variants[sv].fields {
            let s = smodel.fields[d];
            let old = dmodel.fields[d];
            let now = got.iter().find(|(_, dd, _)| *dd == d).map(|x| x.2);
            match (s, old, now) {
                (FState::Uninit, _, _) => new_model.fields[d] = FState::Uninit,
                (FState::Val(_), _, Some(o)) if panicked && self.meta.data[d].instances > 1 => {
                    // a compound value (array of tokens) may legitimately be left half assigned by a panic
                    // in the clone of one of its elements: nothing to compare, conservation still applies
                    new_model.fields[d] = FState::Val(o);
                }
                (FState::Val(sv_), _, Some(o)) => {
                    let is_new = o.pay == sv_.pay && (!self.meta.data[d].tracked || sv_.inst == 0 || (o.inst != sv_.inst && ledger::is_live(o.inst) && (o.inst >= next_before || FState::Val(o) == old)));
                    let is_old = FState::Val(o) == old;
                    if is_new && !(panicked && is_old && o.inst < next_before) {
                        if let FState::Val(prev) = old {
                            if prev.inst != o.inst {
                                self.expect_destroyed("previous value of the clone_from target", "C16/target-previous-destroyed-once", prev, d);
                            }
                        }
                        new_model.fields[d] = FState::Val(o);
                    } else if panicked && is_old {
                        new_model.fields[d] = old;
                    } else {
                        self.v("C16/equal", format!("after clone_from field {} reads {:?}; source holds {:?}, target held {:?}", self.meta.data[d].name, o, sv_, old));
                        new_model.fields[d] = FState::Val(o);
                    }
                }
                (FState::Val(_), FState::Uninit, None) => {
                    // target field was uninit (skipped in observation): now written unless the panic came first
                    skip[d] = false;
                    let mut one: ObsList = alloc::harness(|| Vec::with_capacity(16));
                    if !panicked {
                        self.world[di].slot.get().observe(&skip, &mut one);
                        if let Some(x) = one.iter().find(|(_, dd, _)| *dd == d) {
                            new_model.fields[d] = FState::Val(x.2);
                        }
                    }
                    alloc::harness(|| drop(one));
                    skip[d] = true;
                }
                _ => {}
            }
        }
        alloc::harness(|| {
            drop(got);
            drop(skip);
            drop(smodel);
            drop(dmodel);
        });
        self.world[di].model = new_model;
        self.verify_all(&[di]);
        self.record_state(di);
        self.probe(if panicked { "clone_from_panicked" } else { "clone_from_ok" });
    }

    /// fault enumeration: a panic at the clone of every field j of the record, one after the other
    fn do_clone_sweep(&mut self, r: u8, from: bool) {
        if !self.meta.has_clone || !self.cfg.faults {
            return self.skip();
        }
        let Some(i) = self.idx(r) else { return self.skip() };
        if self.cfg.init_skipped && self.has_uninit(i) {
            return self.skip();
        }
        let model = alloc::harness(|| self.world[i].model.clone());
        let points = self.clone_points(&model);
        alloc::harness(|| drop(model));
        if points == 0 {
            return self.skip();
        }
        if self.world.len() >= MAX_WORLD {
            // the sweep adds a record: never evict the one under test
            return self.skip();
        }
        self.probe("clone_sweep_every_field");
        let points = if self.cfg.init_skipped { points.min(3) } else { points };
        if from {
            // a twin of the same variant to assign onto (made by a fault-free clone)
            self.do_clone(i as u8, 0, 1);
            if self.world.len() < 2 {
                return;
            }
            let twin = self.world.len() - 1;
            let src = if i < self.world.len() - 1 { i } else { return };
            for j in 1..=points {
                if !self.out.violations.is_empty() {
                    break;
                }
                // indices are taken modulo the candidates of the same variant: address the pair explicitly
                self.clone_from_pair(twin, src, j);
                self.conservation(&["C16"]);
            }
        } else {
            for j in 1..=points {
                if !self.out.violations.is_empty() {
                    break;
                }
                let before = self.world.len();
                self.do_clone(i as u8, j as u8, 0);
                if self.world.len() > before {
                    let last = self.world.len() - 1;
                    self.do_drop_index(last);
                }
                self.conservation(&["C16"]);
            }
        }
    }

    /// clone_from of world[src] onto world[dst] with the j-th clone panicking (explicit indices)
    fn clone_from_pair(&mut self, dst: usize, src: usize, j: usize) {
        // `do_clone_from` picks the target among the records of the source's variant other than the source
        let sv = self.world[src].model.variant;
        let candidates: Vec<usize> = alloc::harness(|| (0..self.world.len()).filter(|&k| k != src && self.world[k].model.variant == sv).collect());
        let pos = candidates.iter().position(|&k| k == dst);
        let n = candidates.len();
        alloc::harness(|| drop(candidates));
        if let Some(pos) = pos {
            let _ = n;
            self.do_clone_from(pos as u8, src as u8, j as u8);
        }
    }

    /// fault enumeration over one stream: every truncation point / failing element / failing byte / bit
    fn do_decode_sweep(&mut self, r: u8, fmt: Fmt, kind: u8) {
        if !self.meta.has_serde || !self.cfg.faults {
            return self.skip();
        }
        let Some(i) = self.idx(r) else { return self.skip() };
        if self.has_uninit(i) {
            return self.skip();
        }
        let len: Option<usize> = alloc::harness(|| {
            let mut w = FaultyWriter::new(IoPlan::clean());
            tok::plan_reset();
            self.world[i].slot.get().encode_model(fmt, &mut w).ok().map(|_| w.buf.len())
        });
        let Some(len) = len else { return self.skip() };
        if self.world.len() >= MAX_WORLD {
            return self.skip();
        }
        let nfields = self.meta.variants[self.world[i].model.variant].fields.len();
        let positions: Vec<(StreamMut, IoPlan, u8)> = alloc::harness(|| match kind % 4 {
            0 => (0..=len.min(400)).map(|k| (StreamMut::Truncate(k as u16), IoPlan::clean(), 0)).collect(),
            1 => (1..=nfields + 1).map(|j| (StreamMut::None, IoPlan::clean(), j as u8)).collect(),
            2 => (0..=len.min(400)).map(|k| (StreamMut::None, IoPlan { chunk: 3, eintr_every: 0, err_at: k as u16, eof_at: NEVER }, 0)).collect(),
            _ => {
                let bits = 8 * len;
                let stride = (bits / 256).max(1);
                (0..bits).step_by(stride).map(|b| (StreamMut::BitFlip(b as u16), IoPlan::clean(), 0)).collect()
            }
        });
        // complete for streams up to 160 positions, evenly thinned beyond; the interpreter arm (slow) takes 6
        let max_pos = if self.cfg.init_skipped { 6 } else { 160 };
        let positions: Vec<(StreamMut, IoPlan, u8)> = alloc::harness(|| {
            if positions.len() <= max_pos {
                positions
            } else {
                let n = positions.len();
                (0..max_pos).map(|k| positions[k * (n - 1) / (max_pos - 1)]).collect()
            }
        });
        self.probe(match kind % 4 {
            0 => "decode_sweep_every_truncation",
            1 => "decode_sweep_every_element",
            2 => "decode_sweep_every_reader_error",
            _ => "decode_sweep_every_bit",
        });
        for (mutation, io, fail) in positions.iter() {
            if !self.out.violations.is_empty() {
                break;
            }
            if let StreamMut::Truncate(k) = mutation {
                // `Truncate(k)` is taken modulo len + 1: keep the position exact
                if *k as usize > len {
                    continue;
                }
            }
            let Some(i) = self.idx(r) else { break };
            let before = self.world.len();
            self.do_decode(i as u8, fmt, *mutation, *io, *fail, 0);
            // an accepted stream made a record: it has been verified, drop it again so that the world stays put
            if self.world.len() > before {
                let last = self.world.len() - 1;
                self.do_drop_index(last);
            } else if self.world.len() == before && before == MAX_WORLD {
                // push_record evicted the oldest record to make room: nothing to undo
            }
            self.conservation(&["C15"]);
        }
        alloc::harness(|| drop(positions));
    }

    fn has_uninit(&self, i: usize) -> bool {
        self.world[i].model.fields.iter().any(|f| *f == FState::Uninit)
    }

    fn do_encode(&mut self, r: u8, fmt: Fmt, io: IoPlan, enc_fail_at: u8) {
        if !self.meta.has_serde {
            return self.skip();
        }
        let Some(i) = self.idx(r) else { return self.skip() };
        if self.has_uninit(i) {
            return self.skip();
        }
        let io = if self.cfg.faults { io } else { IoPlan::clean() };
        let fail = if self.cfg.faults { enc_fail_at as usize } else { 0 };
        let (real, real_bytes, real_stats) = alloc::harness(|| {
            let mut w = FaultyWriter::new(io);
            tok::plan_reset();
            tok::plan_encode_fail(fail);
            let res = catch_unwind(AssertUnwindSafe(|| self.world[i].slot.get().encode(fmt, &mut w)));
            (res, w.buf, w.stats)
        });
        let fired_real = tok::plan_fired();
        let (model, model_bytes, _) = alloc::harness(|| {
            let mut w = FaultyWriter::new(io);
            tok::plan_reset();
            tok::plan_encode_fail(fail);
            let res = catch_unwind(AssertUnwindSafe(|| self.world[i].slot.get().encode_model(fmt, &mut w)));
            (res, w.buf, w.stats)
        });
        tok::plan_reset();
        if real_stats.errors > 0 {
            self.fault("wr.err@k");
        }
        if real_stats.short > 0 {
            self.fault("wr.short");
        }
        if real_stats.eintr > 0 {
            self.fault("wr.eintr");
        }
        if fired_real > 0 {
            self.fault("enc.elem_fail@j");
        }
        let desc = |r: &Result<Result<(), String>, Box<dyn std::any::Any + Send>>| match r {
            Ok(Ok(())) => "ok".to_string(),
            Ok(Err(e)) => format!("error({})", e),
            Err(_) => "panic".to_string(),
        };
        let (dr, dm) = alloc::harness(|| (desc(&real), desc(&model)));
        let same_kind = matches!((&real, &model), (Ok(Ok(())), Ok(Ok(()))) | (Ok(Err(_)), Ok(Err(_))) | (Err(_), Err(_)));
        if !same_kind {
            self.v("C15/encode-diverges", format!("{:?} encoding of variant {}: record -> {}, tuple of its fields -> {}", fmt, self.world[i].model.variant, dr, dm));
        } else if matches!(real, Ok(Ok(()))) && real_bytes != model_bytes {
            self.v("C15/encode-bytes", format!("{:?} encoding of variant {} differs from the encoding of the tuple of its fields: {:?} vs {:?}", fmt, self.world[i].model.variant, String::from_utf8_lossy(&real_bytes), String::from_utf8_lossy(&model_bytes)));
        }
        if matches!(real, Err(_)) && matches!(model, Ok(_)) {
            self.v("C15/encode-panic", "serialising the record panicked".to_string());
        }
        alloc::harness(|| {
            drop(real);
            drop(model);
            drop(real_bytes);
            drop(model_bytes);
            drop(dr);
            drop(dm);
        });
        self.verify_all(&[i]);
    }

    fn mutate_stream(&mut self, bytes: Vec<u8>, fmt: Fmt, mutation: StreamMut, nfields: usize) -> Vec<u8> {
        let mut b = bytes;
        match mutation {
            StreamMut::None => {}
            StreamMut::Truncate(k) => {
                let at = k as usize % (b.len() + 1);
                b.truncate(at);
                self.fault("rd.truncated@k");
            }
            StreamMut::BitFlip(k) => {
                if !b.is_empty() {
                    let bit = k as usize % (8 * b.len());
                    b[bit / 8] ^= 1 << (bit % 8);
                    self.fault("rd.bitflip@k");
                }
            }
            StreamMut::Extra => {
                match fmt {
                    Fmt::Json | Fmt::JsonValue => {
                        if b.last() == Some(&b']') {
                            b.pop();
                            if nfields > 0 {
                                b.push(b',');
                            }
                            b.extend_from_slice(b"0]");
                        }
                    }
                    Fmt::Bincode => b.extend_from_slice(&[7, 0, 0, 0, 0, 0, 0, 0]),
                }
                self.fault("rd.extra_elem");
            }
            StreamMut::Missing => {
                if let Fmt::Json | Fmt::JsonValue = fmt {
                    if let Ok(serde_json::Value::Array(mut a)) = serde_json::from_slice::<serde_json::Value>(&b) {
                        if a.pop().is_some() {
                            b = serde_json::to_vec(&serde_json::Value::Array(a)).unwrap();
                            self.fault("rd.missing_elem");
                        }
                    }
                } else if b.len() > 1 {
                    let n = b.len();
                    b.truncate(n - 1);
                    self.fault("rd.missing_elem");
                }
            }
            StreamMut::WrongType(j) => {
                if let Fmt::Json | Fmt::JsonValue = fmt {
                    if let Ok(serde_json::Value::Array(mut a)) = serde_json::from_slice::<serde_json::Value>(&b) {
                        if !a.is_empty() {
                            let j = j as usize % a.len();
                            a[j] = match &a[j] {
                                serde_json::Value::String(_) => serde_json::Value::Bool(true),
                                _ => serde_json::Value::String("wrong".into()),
                            };
                            b = serde_json::to_vec(&serde_json::Value::Array(a)).unwrap();
                            self.fault("rd.wrong_type@j");
                        }
                    }
                }
            }
        }
        b
    }

    fn do_decode(&mut self, r: u8, fmt: Fmt, mutation: StreamMut, io: IoPlan, de_fail_at: u8, place: u8) {
        if !self.meta.has_serde {
            return self.skip();
        }
        let Some(i) = self.idx(r) else { return self.skip() };
        if self.has_uninit(i) {
            return self.skip();
        }
        let v = self.world[i].model.variant;
        let nfields = self.meta.variants[v].fields.len();
        let io = if self.cfg.faults { io } else { IoPlan::clean() };
        let mutation = if self.cfg.faults { mutation } else { StreamMut::None };
        let fail = if self.cfg.faults { de_fail_at as usize } else { 0 };
        // well-formed bytes come from the reference model's encoder
        let bytes: Option<Vec<u8>> = alloc::harness(|| {
            let mut w = FaultyWriter::new(IoPlan::clean());
            tok::plan_reset();
            match self.world[i].slot.get().encode_model(fmt, &mut w) {
                Ok(()) => Some(w.buf),
                Err(_) => None,
            }
        });
        let Some(bytes) = bytes else { return self.skip() };
        let bytes = alloc::harness(|| self.mutate_stream(bytes, fmt, mutation, nfields));
        let clean = mutation == StreamMut::None && io.is_clean() && fail == 0;
        // the real decoder
        tok::plan_reset();
        tok::plan_decode_fail(fail);
        let mut reader = FaultyReader::new(&bytes, io);
        let real = catch_unwind(AssertUnwindSafe(|| R::decode(v, fmt, &mut reader)));
        let stats = reader.stats;
        let fired = tok::plan_fired();
        // the reference decoder: serde's tuple implementation over the same stream and fault plan
        tok::plan_reset();
        tok::plan_decode_fail(fail);
        let mut model_obs: ObsList = alloc::harness(|| Vec::with_capacity(16));
        let mut reader = FaultyReader::new(&bytes, io);
        let model = catch_unwind(AssertUnwindSafe(|| R::decode_model(v, fmt, &mut reader, &mut model_obs)));
        tok::plan_reset();
        if stats.errors > 0 {
            self.fault("rd.err@k");
        }
        if stats.short > 0 {
            self.fault("rd.short");
        }
        if stats.eintr > 0 {
            self.fault("rd.eintr");
        }
        if stats.eofs > 0 {
            self.fault("rd.eof@k");
        }
        if fired > 0 {
            self.fault("dec.elem_fail@j");
        }
        let kind = |ok: bool, err: bool| if ok { "ok" } else if err { "error" } else { "panic" };
        let rk = kind(matches!(real, Ok(Ok(_))), matches!(real, Ok(Err(_))));
        let mk = kind(matches!(model, Ok(Ok(_))), matches!(model, Ok(Err(_))));
        let describe = |bytes: &Vec<u8>| alloc::harness(|| if fmt != Fmt::Bincode { String::from_utf8_lossy(bytes).to_string() } else { format!("{:?}", bytes) });
        if rk != mk {
            let e = match &real {
                Ok(Err(e)) => alloc::harness(|| e.clone()),
                _ => String::new(),
            };
            let m = format!("{:?} stream {} (mutation {:?}, reader {:?}, failing element {}): record decoder -> {} {}, tuple decoder -> {}", fmt, describe(&bytes), mutation, io, fail, rk, e, mk);
            self.v(if rk == "panic" { "C15/decode-panic" } else { "C15/decode-diverges" }, m);
        }
        match real {
            Ok(Ok(rec)) => {
                self.probe(if clean { "decode_roundtrip" } else { "decode_accepted_under_faults" });
                let noskip: Vec<bool> = alloc::harness(|| vec![false; self.nfields()]);
                let mut got: ObsList = alloc::harness(|| Vec::with_capacity(16));
                rec.observe(&noskip, &mut got);
                let mut new_model = alloc::harness(|| ModelRec { variant: v, fields: vec![FState::Absent; self.nfields()], last: "decode" });
                for &(_, d, o) in got.iter() {
                    new_model.fields[d] = FState::Val(o);
                }
                if mk == "ok" {
                    let gp: Vec<(usize, u64)> = alloc::harness(|| got.iter().map(|x| (x.1, x.2.pay)).collect());
                    let mp: Vec<(usize, u64)> = alloc::harness(|| model_obs.iter().map(|x| (x.1, x.2.pay)).collect());
                    if gp != mp {
                        let m = format!("{:?} stream {}: decoded record fields {:?}, decoded tuple {:?}", fmt, describe(&bytes), gp, mp);
                        self.v("C15/decode-values", m);
                    }
                    if clean {
                        // round trip: equal to the original (reported only where the tuple model round-trips too)
                        let orig: Vec<(usize, u64)> = alloc::harness(|| {
                            self.meta.variants[v]
                                .fields
                                .iter()
                                .filter_map(|&d| match self.world[i].model.fields[d] {
                                    FState::Val(o) => Some((d, o.pay)),
                                    _ => None,
                                })
                                .collect()
                        });
                        if mp == orig && gp != orig {
                            self.v("C15/roundtrip", format!("{:?} round trip of variant {}: {:?} became {:?}", fmt, v, orig, gp));
                        }
                        alloc::harness(|| drop(orig));
                    }
                    alloc::harness(|| {
                        drop(gp);
                        drop(mp);
                    });
                }
                alloc::harness(|| {
                    drop(got);
                    drop(noskip);
                });
                let j = self.push_record(rec, new_model, place);
                self.verify_all(&[j]);
            }
            Ok(Err(e)) => {
                self.probe("decode_rejected");
                if clean && mk != "error" {
                    self.v("C15/roundtrip", format!("{:?} round trip of variant {} was rejected: {}", fmt, v, e));
                }
                alloc::harness(|| drop(e));
                self.verify_all(&[]);
            }
            Err(p) => {
                alloc::harness(|| drop(p));
                self.verify_all(&[]);
            }
        }
        alloc::harness(|| {
            drop(model);
            drop(model_obs);
            drop(bytes);
        });
    }

    fn do_vec_convert(&mut self, r: u8, n: u8, form: u8, script: &[VAct], spare: u8, take_world: bool) {
        let v = match self.idx(r) {
            Some(i) => self.world[i].model.variant,
            None => r as usize % self.meta.variants.len(),
        };
        if v + 1 >= self.meta.variants.len() {
            return self.skip();
        }
        let n = n as usize % 7;
        let mut form = Form::from_index(form as usize);
        if self.cfg.init_skipped {
            // a failing vector conversion drops its outputs before the driver could write the fields a
            // mandatory-only form leaves uninitialised: the Miri arm only uses the complete forms here
            form = if form.out() { Form::FullOut } else { Form::Full };
        }
        // records with a past first, then fresh ones
        let mut models: Vec<ModelRec> = alloc::harness(|| Vec::with_capacity(n + MAX_WORLD));
        let mut recs: Vec<R> = Vec::with_capacity(n + MAX_WORLD + spare as usize % 3);
        if take_world {
            let mut k = 0;
            while k < self.world.len() {
                let uninit = self.world[k].model.fields.iter().any(|f| *f == FState::Uninit);
                if self.world[k].model.variant == v && !(self.cfg.init_skipped && uninit) {
                    let Live { slot, model } = self.world.remove(k);
                    recs.push(slot.take());
                    alloc::harness(|| models.push(model));
                    self.probe("vec_convert_of_world_records");
                } else {
                    k += 1;
                }
            }
        }
        let taken = recs.len();
        let n = n + taken;
        let script: Vec<VAct> = alloc::harness(|| {
            let mut faulted = false;
            (0..n)
                .map(|k| {
                    let a = script.get(k).copied().unwrap_or(VAct::Conv);
                    let a = if a.is_fault() && (!self.cfg.faults || faulted) { VAct::Conv } else { a };
                    faulted |= a.is_fault();
                    a
                })
                .collect()
        });
        // fresh records of variant v
        for _ in taken..n {
            self.src.take_made();
            let rec = R::new_full(v, &mut self.src, false);
            let made = self.src.take_made();
            let m = self.model_from_made(v, "new", &made, 0);
            alloc::harness(|| {
                drop(made);
                models.push(m);
            });
            recs.push(rec);
        }
        // fields that are uninitialised in some record of the vector are not observed when handed back
        let noskip: Vec<bool> = alloc::harness(|| (0..self.nfields()).map(|d| models.iter().any(|m| m.fields[d] == FState::Uninit)).collect());
        let mut removed: ObsList = alloc::harness(|| Vec::with_capacity(64));
        let mut log = alloc::harness(|| VecLog { calls: 0, produced_from: Vec::new(), same_buffer: true, same_capacity: true });
        self.src.take_made();
        let result = R::vec_convert(recs, form, &script, &mut self.src, &noskip, &mut removed, &mut log);
        let made = self.src.take_made();
        let fault_at = script.iter().position(|a| a.is_fault());
        let expected_calls = fault_at.map(|k| k + 1).unwrap_or(n);
        if log.calls != expected_calls {
            self.v("C08/vec-records-calls", format!("converter called {} times, expected {}", log.calls, expected_calls));
        }
        match result {
            Ok(out) => {
                if fault_at.is_some() {
                    self.v("C09/vec-records-fault-swallowed", "the converter failed but the vector conversion returned Ok".to_string());
                }
                if !log.same_buffer || !log.same_capacity {
                    self.v("C08/vec-records-in-place", "vector of records was not converted in place".to_string());
                }
                let expected_from: Vec<usize> = alloc::harness(|| (0..n).filter(|&k| script[k] == VAct::Conv).collect());
                if log.produced_from != expected_from || out.len() != expected_from.len() {
                    self.v("C05/vec-convert-values", format!("{} records returned from inputs {:?}, expected inputs {:?}", out.len(), log.produced_from, expected_from));
                }
                // each output against the model of the conversion of its input
                let mut out_models: Vec<ModelRec> = alloc::harness(|| Vec::with_capacity(out.len()));
                for &k in expected_from.iter() {
                    let m = alloc::harness(|| models[k].clone());
                    let nm = self.converted_model(&m, form, &made, &removed, k, "vec_convert", &noskip);
                    alloc::harness(|| {
                        out_models.push(nm);
                        drop(m);
                    });
                }
                // abandoned inputs are destroyed
                for k in 0..n {
                    if script[k] == VAct::Abandon {
                        let m = alloc::harness(|| models[k].clone());
                        for (d, f) in m.fields.iter().enumerate() {
                            if let FState::Val(o) = f {
                                self.expect_destroyed("abandoned record of a vector conversion", "C06/abandoned-not-destroyed-once", *o, d);
                            }
                        }
                        alloc::harness(|| drop(m));
                    }
                }
                // move the outputs into the world one at a time, verify, then drop them
                let mut it = out.into_iter();
                let mut k = 0;
                while let Some(rec) = it.next() {
                    if k < out_models.len() {
                        let m = alloc::harness(|| out_models[k].clone());
                        // fields left uninit by a mandatory-only form are written first in the Miri arm
                        let j = self.push_record(rec, m, k as u8);
                        if self.cfg.init_skipped {
                            self.init_skipped(j);
                        }
                        self.verify(j, false);
                        self.record_state(j);
                        self.do_drop_index(j);
                    } else {
                        drop(rec);
                    }
                    k += 1;
                }
                alloc::harness(|| {
                    drop(out_models);
                    drop(expected_from);
                });
                self.probe("vec_convert_ok");
            }
            Err(fail) => {
                match (&fail, fault_at.map(|k| script[k])) {
                    (VecFail::Err(id), Some(VAct::ErrHolding | VAct::ErrDropped)) => {
                        if *id != VEC_ERR_BASE + fault_at.unwrap() as u64 {
                            self.v("C09/vec-records-error-identity", format!("error {:#x} is not the converter's", id));
                        }
                        self.fault("vec.err");
                    }
                    (VecFail::Panic(p), Some(VAct::PanicHolding | VAct::PanicConverted)) => {
                        if p.downcast_ref::<InjectedPanic>().is_none() {
                            self.v("C09/vec-records-payload-identity", "panic payload is not the converter's".to_string());
                        }
                        self.fault("vec.panic");
                    }
                    (f, s) => {
                        let m = format!("vector conversion failed with {} although the script was {:?}", if matches!(f, VecFail::Err(_)) { "an error" } else { "a panic" }, s);
                        self.v("C05/vec-convert-unexpected-failure", m);
                    }
                }
                alloc::harness(|| drop(fail));
                // everything the vector held is gone: conservation (below) compares with the world only
                self.probe("vec_convert_fault");
            }
        }
        alloc::harness(|| {
            drop(made);
            drop(removed);
            drop(log);
            drop(models);
            drop(noskip);
            drop(script);
        });
        self.verify_all(&[]);
    }

    /// A destructor that panics in the middle of an operation: whatever the generated code does about
    /// the values it has not destroyed yet (the pristine code leaks them, which is safe), no value
    /// may be destroyed twice, neither by the unwinding nor when the surviving records are dropped.
    fn do_drop_panic(&mut self, n: u8, kind: u8, r: u8, a: u8) {
        tok::plan_drop_panic(n.max(1) as usize);
        let res = catch_unwind(AssertUnwindSafe(|| match kind % 5 {
            0 => self.do_convert(r, a % 4),
            1 => self.do_drop(r),
            2 => self.do_set(r, a),
            3 => self.do_unpack(r),
            _ => self.do_chain(r, (a as u32).wrapping_mul(0x0101_0101)),
        }));
        tok::plan_drop_panic(0);
        match res {
            Ok(()) => self.probe("drop_panic_not_reached"),
            Err(p) => match p.downcast_ref::<tok::InjectedPanic>() {
                Some(ip) if ip.what == "drop" => {
                    alloc::harness(|| drop(p));
                    self.fault("drop_panic");
                    self.probe(match kind % 5 {
                        0 => "drop_panic_in_convert",
                        1 => "drop_panic_in_drop",
                        2 => "drop_panic_in_set",
                        3 => "drop_panic_in_unpack",
                        _ => "drop_panic_in_chain",
                    });
                    self.halted = true;
                }
                _ => std::panic::resume_unwind(p),
            },
        }
    }

    fn do_drop_index(&mut self, i: usize) {
        let Live { slot, model } = self.world.remove(i);
        drop(slot);
        for (d, f) in model.fields.iter().enumerate() {
            if let FState::Val(o) = f {
                self.expect_destroyed("record dropped", "C06/drop-not-destroyed-once", *o, d);
            }
        }
        alloc::harness(|| drop(model));
    }

    fn run(&mut self, ops: &[Op]) {
        for (step, op) in ops.iter().enumerate() {
            self.step = step;
            self.op_name = op.name();
            alloc::harness(|| *self.out.ops.entry(op.name()).or_default() += 1);
            fold(&mut self.out.hash, step as u64);
            fold_str(&mut self.out.hash, op.name());
            let mut extra: &[&str] = &[];
            match op {
                Op::New { v, uninit, place, via_from } => self.do_new(*v, *uninit, *place, *via_from),
                Op::Get { r, stack } => self.do_get(*r, *stack),
                Op::Set { r, f } => self.do_set(*r, *f),
                Op::Mutate { r, f } => self.do_mutate(*r, *f),
                Op::Move { r, place } => self.do_move(*r, *place),
                Op::Convert { r, form } => self.do_convert(*r, *form),
                Op::Chain { r, forms } => self.do_chain(*r, *forms),
                Op::Unpack { r } => self.do_unpack(*r),
                Op::Drop { r } => self.do_drop(*r),
                Op::Clone { r, panic_at, place } => {
                    extra = &["C16"];
                    self.do_clone(*r, *panic_at, *place)
                }
                Op::CloneFrom { dst, src, panic_at } => {
                    extra = &["C16"];
                    self.do_clone_from(*dst, *src, *panic_at)
                }
                Op::Encode { r, fmt, io, enc_fail_at } => {
                    extra = &["C15"];
                    self.do_encode(*r, *fmt, *io, *enc_fail_at)
                }
                Op::Decode { r, fmt, mutation, io, de_fail_at, place } => {
                    extra = &["C15"];
                    self.do_decode(*r, *fmt, *mutation, *io, *de_fail_at, *place)
                }
                Op::VecConvert { r, n, form, script, spare, take_world } => self.do_vec_convert(*r, *n, *form, script, *spare, *take_world),
                Op::CloneSweep { r, from } => {
                    extra = &["C16"];
                    self.do_clone_sweep(*r, *from)
                }
                Op::DecodeSweep { r, fmt, kind } => {
                    extra = &["C15"];
                    self.do_decode_sweep(*r, *fmt, *kind)
                }
                Op::DropPanic { n, kind, r, a } => self.do_drop_panic(*n, *kind, *r, *a),
            }
            if self.halted {
                self.out.steps += 1;
                fold(&mut self.out.hash, 0xd709 + ledger::anomaly_count() as u64);
                break;
            }
            self.conservation(extra);
            self.drain_hooks();
            // fold what the world looks like now
            let mut h = self.out.hash;
            for l in &self.world {
                fold(&mut h, l.model.variant as u64);
                for f in &l.model.fields {
                    match f {
                        FState::Absent => fold(&mut h, 0),
                        FState::Uninit => fold(&mut h, 1),
                        FState::Val(o) => {
                            fold(&mut h, 2 + o.inst as u64);
                            fold(&mut h, o.pay);
                        }
                    }
                }
            }
            fold(&mut h, self.out.violations.len() as u64);
            self.out.hash = h;
            self.out.steps += 1;
            // all oracles of the step that found the first violation still report; afterwards the
            // history goes on with the model-independent ones only
            if self.tainted_next {
                self.tainted = true;
            }
        }
    }
}

pub fn run_history<R: Rec>(ops: &[Op], cfg: &RunCfg) -> Outcome {
    let mut out = Outcome { hash: FNV_INIT, ..Default::default() };
    ledger::reset();
    tok::plan_reset();
    #[cfg(truc_verif_hooks)]
    alloc::harness(|| drop(truc_runtime::verif::take_anomalies()));
    #[cfg(truc_verif_hooks)]
    let hook_counters_before = truc_runtime::verif::counters();
    let base_bytes = alloc::live_bytes();
    {
        let src = Src::new();
        let mut e: Engine<R> = Engine {
            meta: R::meta(),
            cfg: *cfg,
            world: alloc::harness(|| Vec::with_capacity(MAX_WORLD + 2)),
            src,
            out: &mut out,
            step: 0,
            op_name: "start",
            scratch: alloc::harness(|| Vec::with_capacity(64)),
            addr_scratch: alloc::harness(|| Vec::with_capacity(64)),
            tainted: false,
            tainted_next: false,
            halted: false,
        };
        // the `RecordN` aliases ("optimized capacity") must be the record types at the published capacity
        if R::CAP == R::meta().max_size {
            let (a, b) = (R::alias_layouts(), R::layouts());
            if a != b {
                e.v("C07/alias-capacity", format!("the RecordN aliases have (size, align) {:?}, the record types at capacity MAX_SIZE = {} have {:?}", a, R::CAP, b));
            }
        }
        e.run(ops);
        let halt_step = e.step;
        // end of life of everything: every instance destroyed exactly once, heap back to baseline
        e.step = ops.len();
        e.op_name = "end-of-history";
        let clean = e.out.violations.is_empty() && !e.halted;
        if e.halted {
            // after a destructor panic the model no longer says which values are alive (the code may
            // have leaked some): the surviving records are dropped as they are
            let judged = e.out.violations.is_empty();
            let world = std::mem::replace(&mut e.world, alloc::harness(Vec::new));
            for l in world {
                let Live { slot, model } = l;
                drop(slot);
                alloc::harness(|| drop(model));
            }
            if judged && ledger::anomaly_count() != 0 {
                let m = format!("after a destructor panicked during {}: {:?}", ops.get(halt_step).map(|o| alloc::harness(|| format!("{:?}", o))).unwrap_or_default(), ledger::anomalies());
                let step = halt_step;
                alloc::harness(|| {
                    e.out.violations.push(Violation { property: "C06".into(), clause: "C06/destroyed-twice-after-destructor-panic".into(), message: m, step, op: "drop_panic".into() });
                });
            }
            #[cfg(truc_verif_hooks)]
            alloc::harness(|| drop(truc_runtime::verif::take_anomalies()));
        }
        while !e.world.is_empty() {
            e.do_drop_index(0);
        }
        if clean {
            e.conservation(&[]);
        }
        if !e.halted {
            e.drain_hooks();
        }
        #[cfg(truc_verif_hooks)]
        {
            // the hook's counters are cumulative per thread: report what this history added
            let c = truc_runtime::verif::counters();
            let b = hook_counters_before;
            alloc::harness(|| {
                e.out.probes.insert("hook_reads", c.reads - b.reads);
                e.out.probes.insert("hook_writes", c.writes - b.writes);
                e.out.probes.insert("hook_refs", c.refs - b.refs);
                e.out.probes.insert("hook_zst_accesses", c.zst_accesses - b.zst_accesses);
                e.out.probes.insert("hook_stores_to_misaligned_destination", c.stores_to_misaligned_destination - b.stores_to_misaligned_destination);
            });
        }
        let Engine { world, src, scratch, addr_scratch, .. } = e;
        alloc::harness(|| {
            drop(world);
            drop(src);
            drop(scratch);
            drop(addr_scratch);
        });
        if clean && alloc::live_bytes() != base_bytes {
            let m = format!("{} bytes still allocated after every record of the history reached its end of life", alloc::live_bytes() - base_bytes);
            alloc::harness(|| {
                out.violations.push(Violation { property: "C06".into(), clause: "C06/live-bytes".into(), message: m, step: ops.len(), op: "end-of-history".into() });
            });
        }
    }
    out
}

// ---------------------------------------------------------------------------------------------
// registry, generation, cli
// ---------------------------------------------------------------------------------------------

pub struct Entry {
    pub def: &'static str,
    pub cap: &'static str,
    pub cap_value: usize,
    pub meta: fn() -> &'static DefMeta,
    pub layouts: fn() -> Vec<(usize, usize)>,
    pub run: fn(&[Op], &RunCfg) -> Outcome,
}

pub fn entry<R: Rec>(def: &'static str, cap: &'static str) -> Entry {
    Entry { def, cap, cap_value: R::CAP, meta: R::meta, layouts: R::layouts, run: run_history::<R> }
}

pub struct Ctx {
    pub registry: Vec<Entry>,
    pub pipeline_failures: Vec<String>,
    pub definition_seed: u64,
    pub out_dir: String,
}

#[derive(Clone, Copy, Debug, PartialEq, Eq)]
pub enum Focus {
    C04,
    C05,
    C06,
    C07,
    C15,
    C16,
    All,
}

impl Focus {
    pub fn parse(s: &str) -> Focus {
        match s {
            "C04" => Focus::C04,
            "C05" => Focus::C05,
            "C06" => Focus::C06,
            "C07" => Focus::C07,
            "C15" => Focus::C15,
            "C16" => Focus::C16,
            _ => Focus::All,
        }
    }
    /// weights: new, new_uninit, get, set, mutate, move, convert, chain, unpack, drop, clone, clone_from, encode, decode, vec_convert, clone_sweep, decode_sweep
    fn weights(self) -> [usize; 17] {
        match self {
            Focus::C04 => [8, 5, 6, 8, 6, 5, 2, 1, 4, 2, 1, 1, 0, 0, 1, 0, 0],
            Focus::C05 => [8, 4, 2, 2, 1, 2, 12, 6, 2, 1, 0, 0, 0, 0, 4, 0, 0],
            Focus::C06 => [8, 3, 1, 5, 1, 2, 6, 3, 4, 4, 3, 3, 1, 2, 4, 1, 1],
            Focus::C07 => [8, 5, 6, 5, 3, 8, 5, 3, 3, 2, 2, 2, 1, 1, 3, 0, 0],
            Focus::C15 => [8, 1, 1, 2, 2, 1, 3, 1, 1, 1, 0, 0, 8, 14, 0, 0, 5],
            Focus::C16 => [8, 2, 1, 3, 3, 2, 3, 1, 1, 2, 10, 10, 0, 0, 0, 5, 0],
            Focus::All => [8, 3, 3, 4, 3, 3, 5, 2, 3, 3, 3, 3, 3, 4, 3, 1, 1],
        }
    }
}

fn gen_io(rng: &mut Rng, faults: bool) -> IoPlan {
    if !faults || rng.chance(1, 2) {
        return IoPlan::clean();
    }
    IoPlan {
        chunk: if rng.chance(1, 2) { rng.range(1, 5) as u16 } else { 0 },
        eintr_every: if rng.chance(1, 3) { rng.range(2, 5) as u16 } else { 0 },
        err_at: if rng.chance(1, 3) { rng.below(48) as u16 } else { NEVER },
        eof_at: if rng.chance(1, 4) { rng.below(48) as u16 } else { NEVER },
    }
}

pub fn gen_ops(rng: &mut Rng, focus: Focus, faults: bool) -> Vec<Op> {
    // half of the histories are short: most crash-consistency bugs need three operations or fewer
    let len = if rng.chance(1, 2) { rng.range(1, 6) } else { rng.range(7, 40) };
    let mut w = focus.weights();
    // swarm: knock out a random subset of the secondary operations for this run
    for x in w.iter_mut().skip(2) {
        if rng.chance(1, 5) {
            *x = 0;
        }
    }
    let mut ops = Vec::with_capacity(len + 1);
    ops.push(Op::New { v: rng.below(8) as u8, uninit: rng.chance(1, 3), place: rng.below(3) as u8, via_from: rng.chance(1, 3) });
    for _ in 0..len {
        let r = rng.below(8) as u8;
        let op = match rng.weighted(&w) {
            0 => Op::New { v: rng.below(8) as u8, uninit: false, place: rng.below(3) as u8, via_from: rng.chance(1, 3) },
            1 => Op::New { v: rng.below(8) as u8, uninit: true, place: rng.below(3) as u8, via_from: rng.chance(1, 3) },
            2 => Op::Get { r, stack: rng.chance(1, 2) },
            3 => Op::Set { r, f: rng.below(16) as u8 },
            4 => Op::Mutate { r, f: rng.below(16) as u8 },
            5 => Op::Move { r, place: rng.below(3) as u8 },
            6 => Op::Convert { r, form: rng.below(4) as u8 },
            7 => Op::Chain { r, forms: rng.next_u64() as u32 },
            8 => Op::Unpack { r },
            9 => Op::Drop { r },
            10 => Op::Clone { r, panic_at: if faults && rng.chance(1, 2) { rng.range(1, 12) as u8 } else { 0 }, place: rng.below(3) as u8 },
            11 => Op::CloneFrom { dst: rng.below(8) as u8, src: r, panic_at: if faults && rng.chance(1, 2) { rng.range(1, 12) as u8 } else { 0 } },
            12 => Op::Encode { r, fmt: *rng.pick(&[Fmt::Json, Fmt::Bincode, Fmt::JsonValue]), io: gen_io(rng, faults), enc_fail_at: if faults && rng.chance(1, 4) { rng.range(1, 8) as u8 } else { 0 } },
            13 => {
                let mutation = if !faults {
                    StreamMut::None
                } else {
                    match rng.below(8) {
                        0 | 1 => StreamMut::None,
                        2 | 3 => StreamMut::Truncate(rng.below(256) as u16),
                        4 => StreamMut::BitFlip(rng.below(2048) as u16),
                        5 => StreamMut::Extra,
                        6 => StreamMut::Missing,
                        _ => StreamMut::WrongType(rng.below(16) as u8),
                    }
                };
                let io_faults = faults && rng.chance(1, 2);
                Op::Decode { r, fmt: *rng.pick(&[Fmt::Json, Fmt::Bincode, Fmt::JsonValue]), mutation, io: gen_io(rng, io_faults), de_fail_at: if faults && rng.chance(1, 4) { rng.range(1, 8) as u8 } else { 0 }, place: rng.below(3) as u8 }
            }
            15 => Op::CloneSweep { r, from: rng.chance(1, 2) },
            16 => Op::DecodeSweep { r, fmt: *rng.pick(&[Fmt::Json, Fmt::Bincode, Fmt::JsonValue]), kind: rng.below(4) as u8 },
            _ => {
                let n = rng.below(7) as u8;
                let fault_at = if faults && n > 0 && rng.chance(2, 3) { Some(rng.below(n as usize)) } else { None };
                let script = (0..n as usize)
                    .map(|k| {
                        if Some(k) == fault_at {
                            *rng.pick(&[VAct::ErrHolding, VAct::ErrDropped, VAct::PanicHolding, VAct::PanicConverted])
                        } else if rng.chance(1, 4) {
                            VAct::Abandon
                        } else {
                            VAct::Conv
                        }
                    })
                    .collect();
                Op::VecConvert { r, n, form: rng.below(4) as u8, script, spare: rng.below(3) as u8, take_world: rng.chance(1, 3) }
            }
        };
        ops.push(op);
    }
    // fault kind "destructor panics": one operation of the history runs with a one-shot panic planted in
    // the n-th token destructor (drawn last, so that the rest of the history is what it was without it)
    if faults && matches!(focus, Focus::C05 | Focus::C06 | Focus::C07 | Focus::All) && rng.chance(1, 5) {
        let pos = rng.range(1, ops.len());
        let kind = [0, 0, 0, 0, 1, 1, 2, 2, 3, 4, 4][rng.below(11)] as u8;
        let n = if rng.chance(1, 2) { rng.range(1, 3) } else { rng.range(1, 10) } as u8;
        let op = Op::DropPanic { n, kind, r: rng.below(8) as u8, a: rng.below(16) as u8 };
        if pos >= ops.len() {
            ops.push(op);
        } else {
            ops[pos] = op;
        }
    }
    ops
}

/// Directed tour of one definition: a handful of short histories that call every generated function of
/// every variant at least once (constructors by both routes, every accessor, every conversion form, clone,
/// clone_from, the three serde arms, unpack, drop, vector conversion with and without a failing converter).
/// Generated functions are straight-line, so one execution covers each of them; the seeded histories add
/// the interleavings.
pub fn gen_tour(meta: &DefMeta, faults: bool, light: bool, focus: Focus) -> Vec<Vec<Op>> {
    let mut tours = Vec::new();
    // sections a property's own check tours under the (slow) interpreter; natively every section is toured
    let wants = |props: &[Focus]| !light || focus == Focus::All || focus == Focus::C06 || focus == Focus::C07 || props.contains(&focus);
    let clean = IoPlan::clean();
    let nv = meta.variants.len();
    for v in 0..nv {
        let v8 = v as u8;
        let nf = meta.variants[v].fields.len() as u8;
        // accessors, writes, placements
        let mut h = vec![Op::New { v: v8, uninit: false, place: 0, via_from: false }, Op::Get { r: 0, stack: true }];
        let basic = wants(&[Focus::C04]);
        for f in 0..nf {
            h.push(Op::Set { r: 0, f });
            h.push(Op::Mutate { r: 0, f });
        }
        h.push(Op::Move { r: 0, place: 1 });
        h.push(Op::Move { r: 0, place: 2 });
        h.push(Op::Get { r: 0, stack: false });
        h.push(Op::Unpack { r: 0 });
        if basic {
            tours.push(h);
        }
        // the mandatory-only constructor and the From routes
        if basic {
            tours.push(vec![
            Op::New { v: v8, uninit: true, place: 1, via_from: false },
            Op::New { v: v8, uninit: true, place: 2, via_from: true },
            Op::New { v: v8, uninit: false, place: 0, via_from: true },
            Op::Get { r: 0, stack: false },
            Op::Get { r: 1, stack: false },
            Op::Get { r: 2, stack: true },
            Op::Drop { r: 0 },
            Op::Unpack { r: 0 },
        ]);
        }
        // clone, clone_from (and every panic position in the fault arm)
        if meta.has_clone && wants(&[Focus::C16]) {
            let mut h = vec![Op::New { v: v8, uninit: false, place: 0, via_from: false }, Op::Clone { r: 0, panic_at: 0, place: 1 }, Op::Set { r: 1, f: 0 }, Op::CloneFrom { dst: 0, src: 0, panic_at: 0 }, Op::Drop { r: 0 }];
            if faults && !light {
                h.push(Op::CloneSweep { r: 0, from: false });
                h.push(Op::CloneSweep { r: 0, from: true });
            } else if faults {
                h.push(Op::Clone { r: 0, panic_at: 2, place: 0 });
                h.push(Op::CloneFrom { dst: 0, src: 0, panic_at: 1 });
            }
            tours.push(h);
        }
        // the three serde arms, round trip and (fault arm) every fault position
        if meta.has_serde && wants(&[Focus::C15]) {
            for fmt in [Fmt::Json, Fmt::Bincode, Fmt::JsonValue] {
                let mut h = vec![
                    Op::New { v: v8, uninit: false, place: 0, via_from: false },
                    Op::Encode { r: 0, fmt, io: clean, enc_fail_at: 0 },
                    Op::Decode { r: 0, fmt, mutation: StreamMut::None, io: clean, de_fail_at: 0, place: 1 },
                ];
                if faults {
                    // the interpreter arm (light) takes one position per fault kind instead of every position
                    for kind in 0..4 {
                        if !light {
                            h.push(Op::DecodeSweep { r: 0, fmt, kind });
                        }
                    }
                    if light {
                        h.push(Op::Decode { r: 0, fmt, mutation: StreamMut::Truncate(5), io: clean, de_fail_at: 0, place: 0 });
                        h.push(Op::Decode { r: 0, fmt, mutation: StreamMut::None, io: clean, de_fail_at: 2, place: 0 });
                    }
                    h.push(Op::Decode { r: 0, fmt, mutation: StreamMut::Extra, io: clean, de_fail_at: 0, place: 0 });
                    h.push(Op::Decode { r: 0, fmt, mutation: StreamMut::Missing, io: clean, de_fail_at: 0, place: 0 });
                    h.push(Op::Decode { r: 0, fmt, mutation: StreamMut::WrongType(1), io: clean, de_fail_at: 0, place: 0 });
                }
                tours.push(h);
            }
        }
        // every conversion form to the next variant, single records and vectors
        if v + 1 < nv && wants(&[Focus::C05]) {
            for form in 0..4u8 {
                tours.push(vec![
                    Op::New { v: v8, uninit: false, place: form % 3, via_from: false },
                    Op::Convert { r: 0, form },
                    Op::Get { r: 0, stack: true },
                    Op::New { v: v8, uninit: true, place: 0, via_from: false },
                    Op::Convert { r: 1, form },
                    Op::VecConvert { r: 0, n: 3, form, script: vec![VAct::Conv, VAct::Abandon, VAct::Conv], spare: 1, take_world: form % 2 == 1 },
                    Op::Drop { r: 0 },
                ]);
            }
            if faults {
                for (i, fault) in [VAct::ErrHolding, VAct::ErrDropped, VAct::PanicHolding, VAct::PanicConverted].into_iter().enumerate() {
                    tours.push(vec![Op::New { v: v8, uninit: false, place: 0, via_from: false }, Op::VecConvert { r: 0, n: 3, form: i as u8, script: vec![VAct::Conv, fault, VAct::Conv], spare: 0, take_world: false }]);
                }
            }
        }
    }
    // chains of conversions from the first to the last variant, each form throughout
    if nv > 1 && wants(&[Focus::C05]) {
        for forms in [0u32, 0x5555_5555, 0xaaaa_aaaa, 0xffff_ffff, 0x1b1b_1b1b] {
            tours.push(vec![Op::New { v: 0, uninit: false, place: 0, via_from: false }, Op::Chain { r: 0, forms }, Op::Get { r: 0, stack: false }]);
        }
    }
    // a destructor panics at every position of every conversion form, of dropping and of unpacking
    if faults && !light {
        for v in 0..nv {
            let v8 = v as u8;
            let nf = (meta.variants[v].fields.len() as u8).min(12);
            let new = Op::New { v: v8, uninit: false, place: 0, via_from: false };
            for n in 1..=nf.max(1) {
                if v + 1 < nv {
                    for form in 0..4u8 {
                        tours.push(vec![new.clone(), Op::DropPanic { n, kind: 0, r: 0, a: form }]);
                    }
                }
                tours.push(vec![new.clone(), Op::DropPanic { n, kind: 1, r: 0, a: 0 }]);
                tours.push(vec![new.clone(), Op::DropPanic { n, kind: 3, r: 0, a: 0 }]);
            }
            for f in 0..nf {
                tours.push(vec![new.clone(), Op::DropPanic { n: 1, kind: 2, r: 0, a: f }, Op::Get { r: 0, stack: false }]);
            }
        }
    }
    tours
}

pub fn gen_case(ctx: &Ctx, seed: u64, run: u64, focus: Focus, faults: bool, init_skipped: bool, defs: &[usize], max_ops: usize) -> Case {
    let mut rng = Rng::new(derive(seed, 0x5133 + focus as u64 * 2 + faults as u64, run));
    let e = &ctx.registry[defs[rng.below(defs.len())]];
    let mut ops = gen_ops(&mut rng, focus, faults);
    ops.truncate(max_ops);
    Case { def: e.def.to_string(), cap: e.cap.to_string(), cfg: RunCfg { faults, init_skipped }, ops }
}

#[derive(Serialize, Default)]
struct BatchReport {
    mode: String,
    runs: u64,
    steps: u64,
    hash: String,
    ops: BTreeMap<String, u64>,
    fault_fired: BTreeMap<String, u64>,
    probes: BTreeMap<String, u64>,
    defs: BTreeMap<String, u64>,
    skipped_ops: u64,
    states: u64,
    distinct_local: u64,
    nontrivial_distinct_local: u64,
    kmv: Vec<u64>,
    samples: Vec<Case>,
    violations: Vec<ReportedViolation>,
}

#[derive(Serialize)]
struct ReportedViolation {
    run: Option<u64>,
    case: Case,
    violations: Vec<Violation>,
}

fn arg<'a>(args: &'a [String], name: &str) -> Option<&'a str> {
    args.iter().position(|a| a == name).and_then(|i| args.get(i + 1)).map(|s| s.as_str())
}

fn find_entry<'a>(ctx: &'a Ctx, def: &str, cap: &str) -> Option<&'a Entry> {
    ctx.registry.iter().find(|e| e.def == def && e.cap == cap)
}

/// optional restriction to a slice of the instantiations (Miri arm): every k-th one, so that the
/// slice spans the definitions
fn select_defs(ctx: &Ctx, seed: u64, max_defs: usize) -> Vec<usize> {
    let mut defs: Vec<usize> = (0..ctx.registry.len()).collect();
    if max_defs < defs.len() {
        let k = (defs.len() + max_defs - 1) / max_defs;
        let off = (seed as usize) % k;
        defs = defs.into_iter().filter(|i| i % k == off).collect();
        if defs.is_empty() {
            defs = vec![0];
        }
    }
    defs
}

pub fn cli(ctx: &Ctx, args: &[String]) -> i32 {
    let cmd = args.get(1).map(|s| s.as_str()).unwrap_or("");
    match cmd {
        "batch" => {
            let seed: u64 = arg(args, "--seed").unwrap().parse().unwrap();
            let start: u64 = arg(args, "--start").unwrap_or("0").parse().unwrap();
            let count: u64 = arg(args, "--count").unwrap().parse().unwrap();
            let focus = Focus::parse(arg(args, "--focus").unwrap_or("all"));
            let faults = arg(args, "--faults").unwrap_or("on") == "on";
            let init_skipped = args.iter().any(|a| a == "--init-skipped");
            let trace = args.iter().any(|a| a == "--trace-cases");
            let max_ops: usize = arg(args, "--max-ops").and_then(|s| s.parse().ok()).unwrap_or(usize::MAX);
            let mut progress = crate::Progress::open(arg(args, "--progress"));
            // optional restriction to a slice of the definitions (Miri arm)
            let max_defs: usize = arg(args, "--max-defs").and_then(|s| s.parse().ok()).unwrap_or(usize::MAX);
            let defs = select_defs(ctx, seed, max_defs);
            if ctx.registry.is_empty() {
                eprintln!("recsim: no definition in this build");
                return 2;
            }
            let mut rep = BatchReport { mode: format!("{:?}/{}", focus, if faults { "faults" } else { "fault-free" }), ..Default::default() };
            let mut hash = FNV_INIT;
            let mut seen: BTreeSet<u64> = BTreeSet::new();
            let mut states: BTreeSet<u64> = BTreeSet::new();
            let mut nontrivial = 0u64;
            for run in start..start + count {
                let case = gen_case(ctx, seed, run, focus, faults, init_skipped, &defs, max_ops);
                if trace {
                    eprintln!("CASE {}", serde_json::to_string(&case).unwrap());
                }
                progress.mark(run);
                let e = find_entry(ctx, &case.def, &case.cap).unwrap();
                let o = (e.run)(&case.ops, &case.cfg);
                rep.runs += 1;
                rep.steps += o.steps;
                rep.skipped_ops += o.skipped;
                fold(&mut hash, o.hash);
                for (k, v) in &o.ops {
                    *rep.ops.entry(k.to_string()).or_default() += v;
                }
                for (k, v) in &o.faults {
                    *rep.fault_fired.entry(k.clone()).or_default() += v;
                }
                for (k, v) in &o.probes {
                    *rep.probes.entry(k.to_string()).or_default() += v;
                }
                *rep.defs.entry(format!("{}/{}", case.def, case.cap)).or_default() += 1;
                let mut dh = FNV_INIT;
                fold_str(&mut dh, &case.def);
                for s in &o.states {
                    states.insert(*s ^ dh);
                }
                if seen.insert(case.shape_hash()) && case.ops.len() >= 2 {
                    nontrivial += 1;
                }
                if rep.samples.len() < 3 && case.ops.len() <= 5 && run % 5 == 0 {
                    rep.samples.push(case.clone());
                }
                if !o.violations.is_empty() {
                    rep.violations.push(ReportedViolation { run: Some(run), case, violations: o.violations });
                    if rep.violations.len() >= 8 {
                        break;
                    }
                }
            }
            rep.hash = format!("{:016x}", hash);
            rep.distinct_local = seen.len() as u64;
            rep.nontrivial_distinct_local = nontrivial;
            rep.states = states.len() as u64;
            rep.kmv = seen.iter().take(2048).copied().collect();
            println!("{}", serde_json::to_string(&rep).unwrap());
            0
        }
        "tour" => {
            // directed tours of (a slice of) the definitions; same report shape as `batch`
            let seed: u64 = arg(args, "--seed").unwrap_or("0").parse().unwrap();
            let faults = arg(args, "--faults").unwrap_or("on") == "on";
            let focus = Focus::parse(arg(args, "--focus").unwrap_or("all"));
            let init_skipped = args.iter().any(|a| a == "--init-skipped");
            let trace = args.iter().any(|a| a == "--trace-cases");
            let max_defs: usize = arg(args, "--max-defs").and_then(|s| s.parse().ok()).unwrap_or(usize::MAX);
            let part: usize = arg(args, "--part").and_then(|s| s.parse().ok()).unwrap_or(0);
            let parts: usize = arg(args, "--parts").and_then(|s| s.parse().ok()).unwrap_or(1);
            // bound of the number of tour histories of this invocation (interpreter arm of the quick tier)
            let max_histories: u64 = arg(args, "--max-histories").and_then(|s| s.parse().ok()).unwrap_or(u64::MAX);
            let mut progress = crate::Progress::open(arg(args, "--progress"));
            // a different slice of the definitions for each property's check
            let defs = select_defs(ctx, seed.wrapping_add(focus as u64), max_defs);
            let mut rep = BatchReport { mode: format!("tour/{}", if faults { "faults" } else { "fault-free" }), ..Default::default() };
            let mut hash = FNV_INIT;
            let mut states: BTreeSet<u64> = BTreeSet::new();
            let mut index = 0u64;
            'outer: for (k, &di) in defs.iter().enumerate() {
                if k % parts != part {
                    continue;
                }
                let e = &ctx.registry[di];
                for ops in gen_tour((e.meta)(), faults, init_skipped, focus) {
                    let case = Case { def: e.def.to_string(), cap: e.cap.to_string(), cfg: RunCfg { faults, init_skipped }, ops };
                    if trace {
                        eprintln!("CASE {}", serde_json::to_string(&case).unwrap());
                    }
                    if index >= max_histories {
                        break 'outer;
                    }
                    progress.mark(index);
                    index += 1;
                    let o = (e.run)(&case.ops, &case.cfg);
                    rep.runs += 1;
                    rep.steps += o.steps;
                    rep.skipped_ops += o.skipped;
                    fold(&mut hash, o.hash);
                    for (k, v) in &o.ops {
                        *rep.ops.entry(k.to_string()).or_default() += v;
                    }
                    for (k, v) in &o.faults {
                        *rep.fault_fired.entry(k.clone()).or_default() += v;
                    }
                    for (k, v) in &o.probes {
                        *rep.probes.entry(k.to_string()).or_default() += v;
                    }
                    *rep.defs.entry(format!("{}/{}", case.def, case.cap)).or_default() += 1;
                    for s in &o.states {
                        states.insert(*s);
                    }
                    if !o.violations.is_empty() {
                        rep.violations.push(ReportedViolation { run: None, case, violations: o.violations });
                        if rep.violations.len() >= 8 {
                            break 'outer;
                        }
                    }
                }
            }
            rep.hash = format!("{:016x}", hash);
            rep.distinct_local = rep.runs;
            rep.nontrivial_distinct_local = rep.runs;
            rep.states = states.len() as u64;
            println!("{}", serde_json::to_string(&rep).unwrap());
            0
        }
        "gen" => {
            // prints the case of one run of a batch without running it (same options as batch)
            let seed: u64 = arg(args, "--seed").unwrap().parse().unwrap();
            let run: u64 = arg(args, "--run").unwrap().parse().unwrap();
            let focus = Focus::parse(arg(args, "--focus").unwrap_or("all"));
            let faults = arg(args, "--faults").unwrap_or("on") == "on";
            let init_skipped = args.iter().any(|a| a == "--init-skipped");
            let max_ops: usize = arg(args, "--max-ops").and_then(|s| s.parse().ok()).unwrap_or(usize::MAX);
            let max_defs: usize = arg(args, "--max-defs").and_then(|s| s.parse().ok()).unwrap_or(usize::MAX);
            let defs = select_defs(ctx, seed, max_defs);
            println!("{}", serde_json::to_string(&gen_case(ctx, seed, run, focus, faults, init_skipped, &defs, max_ops)).unwrap());
            0
        }
        "case" => {
            let text = match arg(args, "--file") {
                Some(f) => std::fs::read_to_string(f).expect("case file"),
                None => arg(args, "--json").expect("--file or --json").to_string(),
            };
            let v: serde_json::Value = serde_json::from_str(&text).expect("json");
            let case: Case = serde_json::from_value(v.get("case").cloned().unwrap_or(v)).expect("case");
            let Some(e) = find_entry(ctx, &case.def, &case.cap) else {
                eprintln!("recsim: definition {}/{} is not in this build", case.def, case.cap);
                return 2;
            };
            let o = (e.run)(&case.ops, &case.cfg);
            println!("{}", serde_json::to_string(&serde_json::json!({"violations": o.violations, "hash": format!("{:016x}", o.hash), "steps": o.steps})).unwrap());
            if o.violations.is_empty() {
                0
            } else {
                1
            }
        }
        "list" => {
            let mut defs = Vec::new();
            for e in &ctx.registry {
                let m = (e.meta)();
                defs.push(serde_json::json!({
                    "def": e.def, "cap": e.cap, "cap_value": e.cap_value, "variants": m.variants.len(), "data": m.data.len(),
                    "clone": m.has_clone, "serde": m.has_serde, "max_size": m.max_size, "align": m.align,
                    "layouts": (e.layouts)(), "plan": serde_json::from_str::<serde_json::Value>(m.plan_json).unwrap(),
                }));
            }
            println!("{}", serde_json::to_string(&serde_json::json!({"definitions": defs, "pipeline_failures": ctx.pipeline_failures, "definition_seed": ctx.definition_seed, "out_dir": ctx.out_dir})).unwrap());
            0
        }
        _ => {
            eprintln!("usage: recsim batch|case|list ...");
            2
        }
    }
}
