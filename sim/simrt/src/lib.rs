//! Shared run-time of the truc simulators: PRNG, value ledger, counting allocator, token
//! types, faulty byte streams, event hash. Single-threaded by construction: every simulator
//! worker is its own process, so all global state below is only ever touched by one thread.

pub mod alloc;
pub mod fio;
pub mod ledger;
pub mod rec;
pub mod engine;
pub mod rng;
pub mod tok;

/// FNV-1a fold of a 64-bit word into an event hash.
#[inline]
pub fn fold(h: &mut u64, x: u64) {
    let mut v = *h;
    for i in 0..8 {
        v ^= (x >> (i * 8)) & 0xff;
        v = v.wrapping_mul(0x0000_0100_0000_01b3);
    }
    *h = v;
}

pub const FNV_INIT: u64 = 0xcbf2_9ce4_8422_2325;

pub fn fold_str(h: &mut u64, s: &str) {
    for b in s.bytes() {
        *h ^= b as u64;
        *h = h.wrapping_mul(0x0000_0100_0000_01b3);
    }
}

/// Installs a panic hook that prints nothing (panics are injected faults here); the previous
/// hook is dropped. `SIMRT_PANIC_VERBOSE=1` keeps the default hook for debugging.
pub fn silence_panics() {
    if std::env::var_os("SIMRT_PANIC_VERBOSE").is_none() {
        std::panic::set_hook(Box::new(|_| {}));
    }
}

/// Crash supervision: the index of the run in progress is kept in a small file (rewritten in
/// place, one `write` per run) so that the supervisor knows which run killed the process.
pub struct Progress {
    file: Option<std::fs::File>,
}

impl Progress {
    pub fn open(path: Option<&str>) -> Self {
        Progress { file: path.and_then(|p| std::fs::OpenOptions::new().create(true).write(true).truncate(true).open(p).ok()) }
    }
    pub fn mark(&mut self, index: u64) {
        use std::io::{Seek, SeekFrom, Write};
        if let Some(f) = self.file.as_mut() {
            let _ = f.seek(SeekFrom::Start(0));
            let _ = f.write_all(format!("{:020}\n", index).as_bytes());
        }
    }
}

pub use serde;
