//! Faulty byte streams (filled in with SIM-R).
