//! Faulty byte streams: the "network and disk" of the serde fragment. Every decision comes from
//! the plan (drawn from the PRNG by the caller); nothing here is random.

use serde::{Deserialize, Serialize};
use std::io::{self, Read, Write};

#[derive(Serialize, Deserialize, Clone, Copy, Debug, Default, PartialEq, Eq)]
pub struct IoPlan {
    /// at most this many bytes per call (0 = unlimited): short reads / short writes
    pub chunk: u16,
    /// every n-th call (n >= 2: a transient condition) fails with `Interrupted` before transferring anything (0 = never)
    pub eintr_every: u16,
    /// the call that would transfer byte `err_at` fails with an I/O error (0xffff = never)
    pub err_at: u16,
    /// readers only: end of file after this many bytes (0xffff = at the real end)
    pub eof_at: u16,
}

pub const NEVER: u16 = 0xffff;

impl IoPlan {
    pub fn clean() -> Self {
        IoPlan { chunk: 0, eintr_every: 0, err_at: NEVER, eof_at: NEVER }
    }
    pub fn is_clean(&self) -> bool {
        *self == Self::clean()
    }
}

#[derive(Default, Debug, Clone, Copy)]
pub struct IoStats {
    pub calls: usize,
    pub short: usize,
    pub eintr: usize,
    pub errors: usize,
    pub eofs: usize,
}

pub const INJECTED_IO_ERROR: &str = "injected-io-error";

pub struct FaultyReader<'a> {
    data: &'a [u8],
    pos: usize,
    plan: IoPlan,
    pub stats: IoStats,
}

impl<'a> FaultyReader<'a> {
    pub fn new(data: &'a [u8], plan: IoPlan) -> Self {
        FaultyReader { data, pos: 0, plan, stats: IoStats::default() }
    }
    pub fn consumed(&self) -> usize {
        self.pos
    }
}

impl Read for FaultyReader<'_> {
    fn read(&mut self, buf: &mut [u8]) -> io::Result<usize> {
        self.stats.calls += 1;
        if buf.is_empty() {
            return Ok(0);
        }
        if self.plan.eintr_every >= 2 && self.stats.calls % self.plan.eintr_every as usize == 0 {
            self.stats.eintr += 1;
            return Err(io::Error::new(io::ErrorKind::Interrupted, "injected-eintr"));
        }
        let mut end = self.data.len();
        if self.plan.eof_at != NEVER {
            end = end.min(self.plan.eof_at as usize);
        }
        // the failing byte only exists if it lies before the (possibly early) end of the stream
        let err_at = if self.plan.err_at != NEVER && (self.plan.err_at as usize) < end { Some(self.plan.err_at as usize) } else { None };
        if let Some(e) = err_at {
            if self.pos >= e {
                self.stats.errors += 1;
                return Err(io::Error::new(io::ErrorKind::Other, INJECTED_IO_ERROR));
            }
        }
        if self.pos >= end {
            if end < self.data.len() {
                self.stats.eofs += 1;
            }
            return Ok(0);
        }
        let mut n = buf.len().min(end - self.pos);
        if self.plan.chunk != 0 && n > self.plan.chunk as usize {
            n = self.plan.chunk as usize;
            self.stats.short += 1;
        }
        if let Some(e) = err_at {
            // stop right before the failing byte so that the next call hits it
            n = n.min(e - self.pos);
        }
        buf[..n].copy_from_slice(&self.data[self.pos..self.pos + n]);
        self.pos += n;
        Ok(n)
    }
}

pub struct FaultyWriter {
    pub buf: Vec<u8>,
    plan: IoPlan,
    pub stats: IoStats,
}

impl FaultyWriter {
    pub fn new(plan: IoPlan) -> Self {
        FaultyWriter { buf: Vec::new(), plan, stats: IoStats::default() }
    }
}

impl Write for FaultyWriter {
    fn write(&mut self, data: &[u8]) -> io::Result<usize> {
        self.stats.calls += 1;
        if data.is_empty() {
            return Ok(0);
        }
        if self.plan.eintr_every >= 2 && self.stats.calls % self.plan.eintr_every as usize == 0 {
            self.stats.eintr += 1;
            return Err(io::Error::new(io::ErrorKind::Interrupted, "injected-eintr"));
        }
        let pos = self.buf.len();
        if self.plan.err_at != NEVER && pos >= self.plan.err_at as usize {
            self.stats.errors += 1;
            return Err(io::Error::new(io::ErrorKind::Other, INJECTED_IO_ERROR));
        }
        let mut n = data.len();
        if self.plan.chunk != 0 && n > self.plan.chunk as usize {
            n = self.plan.chunk as usize;
            self.stats.short += 1;
        }
        if self.plan.err_at != NEVER {
            n = n.min(self.plan.err_at as usize - pos);
        }
        self.buf.extend_from_slice(&data[..n]);
        Ok(n)
    }

    fn flush(&mut self) -> io::Result<()> {
        Ok(())
    }
}
