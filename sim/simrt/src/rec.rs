//! Interface between generated glue code (one module per simulated record definition) and the
//! record life-cycle engine (`crate::engine`). The glue is emitted by `simgen` from the
//! `RecordDefinition` (names, types, variant membership, may-be-uninit flags: no offsets) and
//! calls nothing but the public API of the generated module.

use crate::alloc;
use crate::tok::{InjectedPanic, Obs, Val};
use bincode::Options as _;
use serde::{de::DeserializeOwned, Deserialize, Serialize};
use std::cell::RefCell;
use std::io::{Read, Write};
use std::panic::RefUnwindSafe;
use truc_runtime::convert::{try_convert_vec_in_place, VecElementConversionResult};

#[derive(Debug)]
pub struct FieldMeta {
    pub datum: usize,
    pub name: &'static str,
    pub ty: &'static str,
    /// key of the type in the simulator's catalogue
    pub key: &'static str,
    pub uninit_ok: bool,
    pub tracked: bool,
    /// ledger instances one value owns (0 plain, 1 token / Box / Option, 2 array of two tokens)
    pub instances: usize,
    pub zst: bool,
    /// zero-size token counted per class in the ledger
    pub counted_class: u8,
    pub size: usize,
    pub align: usize,
    /// for the evidence only: the engine never uses offsets
    pub offset: usize,
    /// `Val::norm` of the field type
    pub norm: fn(u64) -> u64,
}

#[derive(Debug)]
pub struct VariantMeta {
    /// datum ids, in declaration order
    pub fields: &'static [usize],
    /// added with respect to the previous variant
    pub plus: &'static [usize],
    /// removed with respect to the previous variant
    pub minus: &'static [usize],
}

#[derive(Debug)]
pub struct DefMeta {
    pub name: &'static str,
    pub data: &'static [FieldMeta],
    pub variants: &'static [VariantMeta],
    pub has_clone: bool,
    pub has_serde: bool,
    pub max_size: usize,
    pub align: usize,
    /// the builder requests this definition was made from (JSON)
    pub plan_json: &'static str,
}

/// (tag, datum id, observation)
pub type ObsList = Vec<(usize, usize, Obs)>;

/// Source of fresh, unique payloads. Every value the glue creates on behalf of the engine is
/// logged so that the reference model learns what was put where.
pub struct Src {
    next_pay: u64,
    pub tag: usize,
    pub made: ObsList,
}

impl Src {
    pub fn new() -> Self {
        Src { next_pay: 100, tag: 0, made: alloc::harness(|| Vec::with_capacity(256)) }
    }
    pub fn fresh(&mut self) -> u64 {
        // steps of 7 and never a multiple of 5 on request: see Option<T>::make
        self.next_pay += 1;
        if self.next_pay % 5 == 0 && self.next_pay % 3 != 0 {
            self.next_pay += 1;
        }
        self.next_pay
    }
    pub fn make<T: Val>(&mut self, datum: usize) -> T {
        let pay = self.fresh();
        let v = T::make(pay);
        let o = v.obs();
        let tag = self.tag;
        alloc::harness(|| self.made.push((tag, datum, o)));
        v
    }
    pub fn take_made(&mut self) -> ObsList {
        alloc::harness(|| std::mem::replace(&mut self.made, Vec::with_capacity(64)))
    }
}

impl Default for Src {
    fn default() -> Self {
        Self::new()
    }
}

#[derive(Serialize, Deserialize, Clone, Copy, Debug, PartialEq, Eq, PartialOrd, Ord)]
pub enum Form {
    /// `RecordN+1::from((rec, UnpackedRecordInN+1 { all added fields }))`
    Full,
    /// `RecordN+1::from((rec, UnpackedUninitRecordInN+1 { mandatory added fields }))`
    Uninit,
    /// `RecordN+1AndUnpackedOut::from((rec, UnpackedRecordInN+1))`
    FullOut,
    /// `RecordN+1AndUnpackedOut::from((rec, UnpackedUninitRecordInN+1))`
    UninitOut,
}

impl Form {
    pub fn from_index(i: usize) -> Form {
        [Form::Full, Form::Uninit, Form::FullOut, Form::UninitOut][i % 4]
    }
    pub fn uninit(self) -> bool {
        matches!(self, Form::Uninit | Form::UninitOut)
    }
    pub fn out(self) -> bool {
        matches!(self, Form::FullOut | Form::UninitOut)
    }
}

#[derive(Serialize, Deserialize, Clone, Copy, Debug, PartialEq, Eq, PartialOrd, Ord)]
pub enum Fmt {
    /// serde_json through a writer / reader
    Json,
    /// bincode through a writer / reader
    Bincode,
    /// serde_json::Value as the (de)serializer (sequence lengths are known in advance); the bytes are
    /// the JSON text of the value
    JsonValue,
}

#[derive(Clone, Copy, Debug)]
pub struct AddrObs {
    pub datum: usize,
    pub addr: usize,
    pub align: usize,
    pub size: usize,
    pub base: usize,
    pub rec_size: usize,
    pub rec_align: usize,
}

/// One action of the scripted converter of a vector conversion between adjacent variants.
#[derive(Serialize, Deserialize, Clone, Copy, Debug, PartialEq, Eq)]
pub enum VAct {
    Conv,
    Abandon,
    /// error returned while the record is still held / after it was dropped
    ErrHolding,
    ErrDropped,
    /// panic while the record is still held / after it was converted
    PanicHolding,
    PanicConverted,
}

impl VAct {
    pub fn is_fault(self) -> bool {
        !matches!(self, VAct::Conv | VAct::Abandon)
    }
}

#[derive(Debug)]
pub enum VecFail {
    Err(u64),
    Panic(Box<dyn std::any::Any + Send>),
}

pub struct VecLog {
    pub calls: usize,
    /// index of the input element each produced output came from
    pub produced_from: Vec<usize>,
    pub same_buffer: bool,
    pub same_capacity: bool,
}

pub trait Rec: Sized + 'static {
    const CAP: usize;
    fn meta() -> &'static DefMeta;
    /// (size_of, align_of) of every generated variant type at this capacity
    fn layouts() -> Vec<(usize, usize)>;
    fn variant(&self) -> usize;
    /// `via_from`: through the generated `From<UnpackedRecordN>` impl instead of `new`
    fn new_full(v: usize, src: &mut Src, via_from: bool) -> Self;
    /// mandatory fields only (`new_uninit` or `From<UnpackedUninitRecordN>`)
    fn new_uninit(v: usize, src: &mut Src, via_from: bool) -> Self;
    /// (size_of, align_of) of the `RecordN` aliases ("optimized capacity"), one per variant
    fn alias_layouts() -> Vec<(usize, usize)>;
    /// through the `&self` accessors; `skip[datum]` = do not touch (never written)
    fn observe(&self, skip: &[bool], out: &mut ObsList);
    /// through the `&mut self` accessors
    fn observe_mut(&mut self, skip: &[bool], out: &mut ObsList);
    fn addrs(&self, out: &mut Vec<AddrObs>);
    /// `*rec.f_mut() = fresh value`
    fn set(&mut self, datum: usize, src: &mut Src);
    /// in-place mutation through the mutable accessor
    fn mutate(&mut self, datum: usize, pay: u64) -> Obs;
    /// unpacks, observes the returned values, drops them
    fn unpack(self, skip: &[bool], out: &mut ObsList);
    /// to the next variant; `removed` receives the values handed back by the `..AndUnpackedOut` forms
    fn convert(self, form: Form, src: &mut Src, skip: &[bool], removed: &mut ObsList) -> Self;
    fn clone_rec(&self) -> Self;
    fn clone_from_rec(&mut self, source: &Self);
    fn encode(&self, fmt: Fmt, w: &mut dyn Write) -> Result<(), String>;
    /// the reference model of the serde fragment: serde's own tuple implementation
    fn encode_model(&self, fmt: Fmt, w: &mut dyn Write) -> Result<(), String>;
    fn decode(v: usize, fmt: Fmt, r: &mut dyn Read) -> Result<Self, String>;
    fn decode_model(v: usize, fmt: Fmt, r: &mut dyn Read, out: &mut ObsList) -> Result<(), String>;
    /// `try_convert_vec_in_place` over records of one variant, converter = generated `From` impls
    fn vec_convert(recs: Vec<Self>, form: Form, script: &[VAct], src: &mut Src, skip: &[bool], removed: &mut ObsList, log: &mut VecLog) -> Result<Vec<Self>, VecFail>;
}

/// bincode's default wire format (`bincode::serialize`) plus a size limit, so that a corrupted
/// length prefix is an error instead of a multi-gigabyte allocation.
fn bincode_options() -> impl bincode::Options {
    use bincode::Options;
    bincode::DefaultOptions::new().with_fixint_encoding().allow_trailing_bytes().with_limit(1 << 16)
}

pub fn enc<T: Serialize + ?Sized>(fmt: Fmt, w: &mut dyn Write, t: &T) -> Result<(), String> {
    match fmt {
        Fmt::Json => serde_json::to_writer(w, t).map_err(|e| format!("json: {}", e)),
        Fmt::Bincode => bincode_options().serialize_into(w, t).map_err(|e| format!("bincode: {}", e)),
        Fmt::JsonValue => {
            let v = serde_json::to_value(t).map_err(|e| format!("json value: {}", e))?;
            serde_json::to_writer(w, &v).map_err(|e| format!("json: {}", e))
        }
    }
}

pub fn dec<T: DeserializeOwned>(fmt: Fmt, r: &mut dyn Read) -> Result<T, String> {
    match fmt {
        Fmt::Json => serde_json::from_reader(r).map_err(|e| format!("json: {}", e)),
        Fmt::Bincode => bincode_options().deserialize_from(r).map_err(|e| format!("bincode: {}", e)),
        Fmt::JsonValue => {
            let v: serde_json::Value = serde_json::from_reader(r).map_err(|e| format!("json: {}", e))?;
            serde_json::from_value(v).map_err(|e| format!("json value: {}", e))
        }
    }
}

struct Shared<X>(RefCell<X>);
impl<X> RefUnwindSafe for Shared<X> {}
impl<X> Shared<X> {
    fn st(&self) -> std::cell::RefMut<'_, X> {
        self.0.borrow_mut()
    }
}

pub const VEC_ERR_BASE: u64 = 0x7e00_0000;

/// Drives `try_convert_vec_in_place::<T, U>` with the scripted converter; `conv` is the generated
/// single-record conversion.
pub fn drive_vec_convert<T, U>(
    input: Vec<T>,
    script: &[VAct],
    src: &mut Src,
    log: &mut VecLog,
    conv: &mut dyn FnMut(T, &mut Src) -> U,
) -> Result<Vec<U>, VecFail> {
    struct St<'a, T, U> {
        src: &'a mut Src,
        conv: &'a mut dyn FnMut(T, &mut Src) -> U,
        calls: usize,
        produced_from: Vec<usize>,
    }
    let in_ptr = input.as_ptr() as usize;
    let in_cap = input.capacity();
    let shared = Shared(RefCell::new(St { src, conv, calls: 0, produced_from: alloc::harness(|| Vec::with_capacity(input.len() + 1)) }));
    let shared_ref = &shared;
    let result = std::panic::catch_unwind(std::panic::AssertUnwindSafe(|| {
        try_convert_vec_in_place::<T, U, _, u64>(input, move |t, _prev| {
            let mut st = shared_ref.st();
            let k = st.calls;
            st.calls += 1;
            st.src.tag = k;
            match script.get(k).copied().unwrap_or(VAct::Conv) {
                VAct::Conv => {
                    let st = &mut *st;
                    let u = (st.conv)(t, st.src);
                    alloc::harness(|| st.produced_from.push(k));
                    Ok(VecElementConversionResult::Converted(u))
                }
                VAct::Abandon => {
                    drop(t);
                    Ok(VecElementConversionResult::Abandonned)
                }
                VAct::ErrHolding => {
                    drop(st);
                    let r = Err(VEC_ERR_BASE + k as u64);
                    drop(t);
                    r
                }
                VAct::ErrDropped => {
                    drop(t);
                    Err(VEC_ERR_BASE + k as u64)
                }
                VAct::PanicHolding => {
                    drop(st);
                    let _hold = t;
                    std::panic::panic_any(InjectedPanic { what: "vec-convert", n: k })
                }
                VAct::PanicConverted => {
                    let _u = {
                        let st = &mut *st;
                        (st.conv)(t, st.src)
                    };
                    drop(st);
                    std::panic::panic_any(InjectedPanic { what: "vec-convert", n: k })
                }
            }
        })
    }));
    let st = shared.0.into_inner();
    st.src.tag = 0;
    log.calls = st.calls;
    log.produced_from = st.produced_from;
    match result {
        Ok(Ok(v)) => {
            log.same_capacity = v.capacity() == in_cap;
            log.same_buffer = std::mem::size_of::<T>() == 0 || in_cap == 0 || v.as_ptr() as usize == in_ptr;
            Ok(v)
        }
        Ok(Err(e)) => Err(VecFail::Err(e)),
        Err(p) => Err(VecFail::Panic(p)),
    }
}

/// Reference model of a record variant with more fields than serde's tuple impls reach (16): the
/// same wire shape as a tuple (`serialize_tuple(N)` / `deserialize_tuple(N)`, elements in order).
#[macro_export]
macro_rules! wide_model {
    ($name:ident, $refname:ident, $n:expr, $( $f:ident : $t:ty ),+ ) => {
        #[allow(dead_code)]
        struct $name { $( $f: $t ),+ }
        impl<'de> $crate::serde::Deserialize<'de> for $name {
            fn deserialize<D: $crate::serde::Deserializer<'de>>(d: D) -> Result<Self, D::Error> {
                struct V;
                impl<'de> $crate::serde::de::Visitor<'de> for V {
                    type Value = $name;
                    fn expecting(&self, f: &mut std::fmt::Formatter) -> std::fmt::Result {
                        write!(f, "a tuple of size {}", $n)
                    }
                    fn visit_seq<A: $crate::serde::de::SeqAccess<'de>>(self, mut seq: A) -> Result<$name, A::Error> {
                        let mut i = 0usize;
                        $(
                            let $f: $t = match seq.next_element()? {
                                Some(x) => x,
                                None => return Err($crate::serde::de::Error::invalid_length(i, &self)),
                            };
                            i += 1;
                        )+
                        let _ = i;
                        Ok($name { $( $f ),+ })
                    }
                }
                d.deserialize_tuple($n, V)
            }
        }
        #[allow(dead_code)]
        struct $refname<'a> { $( $f: &'a $t ),+ }
        impl<'a> $crate::serde::Serialize for $refname<'a> {
            fn serialize<S: $crate::serde::Serializer>(&self, s: S) -> Result<S::Ok, S::Error> {
                use $crate::serde::ser::SerializeTuple;
                let mut t = s.serialize_tuple($n)?;
                $( t.serialize_element(self.$f)?; )+
                t.end()
            }
        }
    };
}
