//! Counting allocator seam. It only accounts (no failure injection: `handle_alloc_error`
//! aborts, no property speaks about the state after that).
//!
//! * live bytes / allocation and deallocation counts,
//! * one *watched* buffer: how often it was deallocated or reallocated and whether the layout
//!   handed to `dealloc` is the one it was allocated with.

use std::alloc::{GlobalAlloc, Layout, System};
use std::sync::atomic::{AtomicIsize, AtomicUsize, Ordering::Relaxed};

pub struct CountingAlloc;

static LIVE_BYTES: AtomicIsize = AtomicIsize::new(0);
static ALLOCS: AtomicUsize = AtomicUsize::new(0);
static DEALLOCS: AtomicUsize = AtomicUsize::new(0);

// Allocations made by the harness itself (logs, messages) while `harness()` is active are kept
// out of the accounting, whenever they are freed: their addresses sit in a small open-addressing
// table that the allocator consults without allocating.
const HTAB: usize = 8192;
static HARNESS_DEPTH: AtomicUsize = AtomicUsize::new(0);
static HARNESS_PTRS: [AtomicUsize; HTAB] = [const { AtomicUsize::new(0) }; HTAB];
static HARNESS_OVERFLOW: AtomicUsize = AtomicUsize::new(0);
const TOMB: usize = 1;

fn hslot(p: usize) -> usize {
    (p >> 4).wrapping_mul(0x9e37_79b9_7f4a_7c15) >> 40 & (HTAB - 1)
}

fn htab_insert(p: usize) {
    let mut i = hslot(p);
    for _ in 0..HTAB {
        let v = HARNESS_PTRS[i].load(Relaxed);
        if v == 0 || v == TOMB {
            HARNESS_PTRS[i].store(p, Relaxed);
            return;
        }
        i = (i + 1) & (HTAB - 1);
    }
    HARNESS_OVERFLOW.fetch_add(1, Relaxed);
}

fn htab_remove(p: usize) -> bool {
    let mut i = hslot(p);
    for _ in 0..HTAB {
        let v = HARNESS_PTRS[i].load(Relaxed);
        if v == p {
            HARNESS_PTRS[i].store(TOMB, Relaxed);
            return true;
        }
        if v == 0 {
            return false;
        }
        i = (i + 1) & (HTAB - 1);
    }
    false
}

/// Runs `f` with allocation accounting suspended: what it allocates is never counted, neither
/// now nor when it is freed later.
pub fn harness<R>(f: impl FnOnce() -> R) -> R {
    // the guard keeps the depth right when `f` unwinds
    struct Depth;
    impl Drop for Depth {
        fn drop(&mut self) {
            HARNESS_DEPTH.fetch_sub(1, Relaxed);
        }
    }
    HARNESS_DEPTH.fetch_add(1, Relaxed);
    let _depth = Depth;
    f()
}

/// Number of harness allocations the table could not hold (must stay 0 for the accounting to
/// be exact; reported as a harness error, never as a verdict).
pub fn harness_overflow() -> usize {
    HARNESS_OVERFLOW.load(Relaxed)
}

static WATCH_PTR: AtomicUsize = AtomicUsize::new(0);
static WATCH_SIZE: AtomicUsize = AtomicUsize::new(0);
static WATCH_ALIGN: AtomicUsize = AtomicUsize::new(0);
static WATCH_DEALLOC: AtomicUsize = AtomicUsize::new(0);
static WATCH_REALLOC: AtomicUsize = AtomicUsize::new(0);
static WATCH_BAD_LAYOUT: AtomicUsize = AtomicUsize::new(0);

unsafe impl GlobalAlloc for CountingAlloc {
    unsafe fn alloc(&self, layout: Layout) -> *mut u8 {
        let p = System.alloc(layout);
        if !p.is_null() && HARNESS_DEPTH.load(Relaxed) != 0 {
            htab_insert(p as usize);
            return p;
        }
        if !p.is_null() {
            LIVE_BYTES.fetch_add(layout.size() as isize, Relaxed);
            ALLOCS.fetch_add(1, Relaxed);
        }
        p
    }

    unsafe fn dealloc(&self, ptr: *mut u8, layout: Layout) {
        if htab_remove(ptr as usize) {
            return System.dealloc(ptr, layout);
        }
        let w = WATCH_PTR.load(Relaxed);
        if w != 0 && w == ptr as usize {
            WATCH_DEALLOC.fetch_add(1, Relaxed);
            if layout.size() != WATCH_SIZE.load(Relaxed) || layout.align() != WATCH_ALIGN.load(Relaxed) {
                WATCH_BAD_LAYOUT.fetch_add(1, Relaxed);
            }
            // the address may be handed out again: stop watching it
            WATCH_PTR.store(0, Relaxed);
        }
        LIVE_BYTES.fetch_sub(layout.size() as isize, Relaxed);
        DEALLOCS.fetch_add(1, Relaxed);
        System.dealloc(ptr, layout)
    }

    unsafe fn realloc(&self, ptr: *mut u8, layout: Layout, new_size: usize) -> *mut u8 {
        if htab_remove(ptr as usize) {
            let p = System.realloc(ptr, layout, new_size);
            htab_insert(if p.is_null() { ptr as usize } else { p as usize });
            return p;
        }
        let w = WATCH_PTR.load(Relaxed);
        if w != 0 && w == ptr as usize {
            WATCH_REALLOC.fetch_add(1, Relaxed);
            WATCH_PTR.store(0, Relaxed);
        }
        let p = System.realloc(ptr, layout, new_size);
        if !p.is_null() {
            LIVE_BYTES.fetch_add(new_size as isize - layout.size() as isize, Relaxed);
        }
        p
    }
}

pub fn live_bytes() -> isize {
    LIVE_BYTES.load(Relaxed)
}

pub fn counts() -> (usize, usize) {
    (ALLOCS.load(Relaxed), DEALLOCS.load(Relaxed))
}

/// Starts watching a buffer (pass the layout it was allocated with). `ptr == 0` or a zero-size
/// layout (dangling pointer of an empty or zero-size-element vector) watches nothing.
pub fn watch(ptr: usize, size: usize, align: usize) {
    WATCH_DEALLOC.store(0, Relaxed);
    WATCH_REALLOC.store(0, Relaxed);
    WATCH_BAD_LAYOUT.store(0, Relaxed);
    WATCH_SIZE.store(size, Relaxed);
    WATCH_ALIGN.store(align, Relaxed);
    WATCH_PTR.store(if size == 0 { 0 } else { ptr }, Relaxed);
}

#[derive(Clone, Copy, Debug, PartialEq, Eq)]
pub struct WatchReport {
    pub deallocs: usize,
    pub reallocs: usize,
    pub bad_layout: usize,
    pub still_watched: bool,
}

pub fn watch_report() -> WatchReport {
    WatchReport {
        deallocs: WATCH_DEALLOC.load(Relaxed),
        reallocs: WATCH_REALLOC.load(Relaxed),
        bad_layout: WATCH_BAD_LAYOUT.load(Relaxed),
        still_watched: WATCH_PTR.load(Relaxed) != 0,
    }
}

pub fn unwatch() {
    WATCH_PTR.store(0, Relaxed);
}
