//! Instrumented value types ("tokens") and the `Val` trait every simulated field / element type
//! implements. Tokens register their creation and destruction in the ledger; their `Clone`,
//! `Serialize` and `Deserialize` consult the per-run fault plan, which is how the simulator
//! places a crash (panic) or an error *inside* an operation of the code under test.

use crate::ledger;
use serde::{Deserialize, Deserializer, Serialize, Serializer};
use std::sync::atomic::{AtomicUsize, Ordering::Relaxed};

/// What can be observed of a value: the ledger instance (0 = untracked) and its payload.
#[derive(Clone, Copy, Debug, PartialEq, Eq, Default, PartialOrd, Ord)]
pub struct Obs {
    pub inst: u32,
    pub pay: u64,
}

pub trait Val: Sized + 'static {
    /// ledger class (0 = not tracked)
    const CLASS: u8;
    /// carries a ledger instance id
    const TRACKED: bool;
    const ZST: bool = false;
    /// zero-size token counted per class in the ledger
    const COUNTED: bool = false;
    /// how many ledger instances one value of this type owns (an `Option` that is `None` owns none)
    const INSTANCES: usize = if Self::TRACKED { 1 } else { 0 };
    /// number of distinguishable payloads is at least this (payloads are reduced modulo it)
    fn make(pay: u64) -> Self;
    fn obs(&self) -> Obs;
    /// in-place mutation of the payload; the instance stays the same
    fn set_pay(&mut self, pay: u64);
    /// the payload a value made from / set to `pay` reports (payloads are reduced to the type's width)
    fn norm(pay: u64) -> u64;
}

// ---------------------------------------------------------------------------------------------
// fault plan
// ---------------------------------------------------------------------------------------------

static CLONE_COUNT: AtomicUsize = AtomicUsize::new(0);
static CLONE_PANIC_AT: AtomicUsize = AtomicUsize::new(0);
static DE_COUNT: AtomicUsize = AtomicUsize::new(0);
static DE_FAIL_AT: AtomicUsize = AtomicUsize::new(0);
static SER_COUNT: AtomicUsize = AtomicUsize::new(0);
static SER_FAIL_AT: AtomicUsize = AtomicUsize::new(0);
static FIRED: AtomicUsize = AtomicUsize::new(0);
static DROP_COUNT: AtomicUsize = AtomicUsize::new(0);
static DROP_PANIC_AT: AtomicUsize = AtomicUsize::new(0);

/// Payload of a panic injected by a token.
#[derive(Debug, Clone, Copy, PartialEq, Eq)]
pub struct InjectedPanic {
    pub what: &'static str,
    pub n: usize,
}

pub const INJECTED_DECODE_FAILURE: &str = "injected-decode-failure";
pub const INJECTED_ENCODE_FAILURE: &str = "injected-encode-failure";

/// Clears counters and disarms all faults.
pub fn plan_reset() {
    for a in [&CLONE_COUNT, &CLONE_PANIC_AT, &DE_COUNT, &DE_FAIL_AT, &SER_COUNT, &SER_FAIL_AT, &FIRED, &DROP_COUNT, &DROP_PANIC_AT] {
        a.store(0, Relaxed);
    }
}

/// The n-th (1-based) token clone from now on panics. 0 disarms.
pub fn plan_clone_panic(n: usize) {
    CLONE_COUNT.store(0, Relaxed);
    CLONE_PANIC_AT.store(n, Relaxed);
}

/// The destructor of the n-th (1-based) token destroyed from now on panics, after the destruction
/// has been recorded. One shot: it disarms itself when it fires, and never fires while the thread
/// is already unwinding (that would abort the process). 0 disarms.
pub fn plan_drop_panic(n: usize) {
    DROP_COUNT.store(0, Relaxed);
    DROP_PANIC_AT.store(n, Relaxed);
}

pub fn drop_count() -> usize {
    DROP_COUNT.load(Relaxed)
}

fn on_drop() {
    let at = DROP_PANIC_AT.load(Relaxed);
    if at == 0 {
        return;
    }
    let n = DROP_COUNT.fetch_add(1, Relaxed) + 1;
    if n == at && !std::thread::panicking() {
        DROP_PANIC_AT.store(0, Relaxed);
        FIRED.fetch_add(1, Relaxed);
        std::panic::panic_any(InjectedPanic { what: "drop", n });
    }
}

/// The n-th (1-based) token decode from now on fails. 0 disarms.
pub fn plan_decode_fail(n: usize) {
    DE_COUNT.store(0, Relaxed);
    DE_FAIL_AT.store(n, Relaxed);
}

/// The n-th (1-based) token encode from now on fails. 0 disarms.
pub fn plan_encode_fail(n: usize) {
    SER_COUNT.store(0, Relaxed);
    SER_FAIL_AT.store(n, Relaxed);
}

/// How many planned faults actually fired since the last `plan_reset`.
pub fn plan_fired() -> usize {
    FIRED.load(Relaxed)
}

pub fn clone_count() -> usize {
    CLONE_COUNT.load(Relaxed)
}

pub fn decode_count() -> usize {
    DE_COUNT.load(Relaxed)
}

pub fn encode_count() -> usize {
    SER_COUNT.load(Relaxed)
}

fn on_clone() {
    let n = CLONE_COUNT.fetch_add(1, Relaxed) + 1;
    if n == CLONE_PANIC_AT.load(Relaxed) {
        FIRED.fetch_add(1, Relaxed);
        std::panic::panic_any(InjectedPanic { what: "clone", n });
    }
}

fn on_decode<E: serde::de::Error>() -> Result<(), E> {
    let n = DE_COUNT.fetch_add(1, Relaxed) + 1;
    if n == DE_FAIL_AT.load(Relaxed) {
        FIRED.fetch_add(1, Relaxed);
        return Err(E::custom(INJECTED_DECODE_FAILURE));
    }
    Ok(())
}

fn on_encode<E: serde::ser::Error>() -> Result<(), E> {
    let n = SER_COUNT.fetch_add(1, Relaxed) + 1;
    if n == SER_FAIL_AT.load(Relaxed) {
        FIRED.fetch_add(1, Relaxed);
        return Err(E::custom(INJECTED_ENCODE_FAILURE));
    }
    Ok(())
}

// ---------------------------------------------------------------------------------------------
// ledger tokens
// ---------------------------------------------------------------------------------------------

macro_rules! ledger_token {
    ($name:ident, $class:expr, $wire:ty, #[$($repr:meta),*] { $($body:tt)* }, new($id:ident, $pay:ident) $new:expr, id($s:ident) $getid:expr, pay($s2:ident) $getpay:expr, set($s3:ident, $p3:ident) $set:expr) => {
        #[$($repr),*]
        pub struct $name { $($body)* }

        impl Val for $name {
            const CLASS: u8 = $class;
            const TRACKED: bool = true;
            fn make(pay: u64) -> Self {
                let $id: u32 = ledger::create($class);
                let $pay: u64 = pay;
                $new
            }
            fn obs(&self) -> Obs {
                let $s = self;
                let inst: u32 = $getid;
                let $s2 = self;
                let pay: u64 = $getpay;
                Obs { inst, pay }
            }
            fn set_pay(&mut self, pay: u64) {
                let $s3 = self;
                let $p3: u64 = pay;
                $set
            }
            fn norm(pay: u64) -> u64 {
                pay as $wire as u64
            }
        }

        impl Drop for $name {
            fn drop(&mut self) {
                ledger::destroy(self.obs().inst, $class);
                on_drop();
            }
        }

        impl Clone for $name {
            fn clone(&self) -> Self {
                on_clone();
                Self::make(self.obs().pay)
            }
        }

        impl Serialize for $name {
            fn serialize<S: Serializer>(&self, serializer: S) -> Result<S::Ok, S::Error> {
                on_encode::<S::Error>()?;
                (self.obs().pay as $wire).serialize(serializer)
            }
        }

        impl<'de> Deserialize<'de> for $name {
            fn deserialize<D: Deserializer<'de>>(deserializer: D) -> Result<Self, D::Error> {
                let pay = <$wire>::deserialize(deserializer)?;
                on_decode::<D::Error>()?;
                Ok(Self::make(pay as u64))
            }
        }

        impl std::fmt::Debug for $name {
            fn fmt(&self, f: &mut std::fmt::Formatter<'_>) -> std::fmt::Result {
                let o = self.obs();
                write!(f, "{}#{}:{}", stringify!($name), o.inst, o.pay)
            }
        }
    };
}

macro_rules! tok8 {
    ($name:ident, $class:expr) => {
        ledger_token!($name, $class, u32, #[repr(C, align(8))] { id: u32, pay: u32 },
            new(id, pay) $name { id, pay: pay as u32 },
            id(s) s.id, pay(s) s.pay as u64, set(s, p) s.pay = p as u32);
    };
}
macro_rules! tok3 {
    ($name:ident, $class:expr) => {
        ledger_token!($name, $class, u8, #[repr(C)] { id: [u8; 2], pay: u8 },
            new(id, pay) $name { id: (id as u16).to_le_bytes(), pay: pay as u8 },
            id(s) u16::from_le_bytes(s.id) as u32, pay(s) s.pay as u64, set(s, p) s.pay = p as u8);
    };
}
macro_rules! tok16 {
    ($name:ident, $class:expr) => {
        ledger_token!($name, $class, u64, #[repr(C, align(16))] { id: u32, pay: u64 },
            new(id, pay) $name { id, pay },
            id(s) s.id, pay(s) s.pay, set(s, p) s.pay = p);
    };
}
macro_rules! tok64 {
    ($name:ident, $class:expr) => {
        ledger_token!($name, $class, u64, #[repr(C)] { id: u32, pay: u64, pad: [u64; 6] },
            new(id, pay) $name { id, pay, pad: [pay ^ 0x5555_5555_5555_5555; 6] },
            id(s) s.id, pay(s) if s.pad.iter().all(|&x| x == s.pay ^ 0x5555_5555_5555_5555) { s.pay } else { !s.pay },
            set(s, p) { s.pay = p; s.pad = [p ^ 0x5555_5555_5555_5555; 6]; });
    };
}
// heap-owning token: the id and payload live behind a pointer
macro_rules! tokheap {
    ($name:ident, $class:expr) => {
        ledger_token!($name, $class, u64, #[repr(C)] { inner: Box<(u32, u64)> },
            new(id, pay) $name { inner: Box::new((id, pay)) },
            id(s) s.inner.0, pay(s) s.inner.1, set(s, p) s.inner.1 = p);
    };
}

// larger than a cache line, size not a power of two
macro_rules! tok96 {
    ($name:ident, $class:expr) => {
        ledger_token!($name, $class, u64, #[repr(C)] { id: u32, pay: u64, pad: [u64; 10] },
            new(id, pay) $name { id, pay, pad: [pay ^ 0x3333_3333_3333_3333; 10] },
            id(s) s.id, pay(s) if s.pad.iter().all(|&x| x == s.pay ^ 0x3333_3333_3333_3333) { s.pay } else { !s.pay },
            set(s, p) { s.pay = p; s.pad = [p ^ 0x3333_3333_3333_3333; 10]; });
    };
}

tok8!(TokA8, 1);
tok8!(TokB8, 2);
tok3!(TokA3, 3);
tok3!(TokB3, 4);
tok16!(TokA16, 5);
tok16!(TokB16, 6);
tok64!(TokA64, 7);
tok64!(TokB64, 8);
tok96!(TokA96, 11);
tok96!(TokB96, 12);
tokheap!(TokAH, 9);
tokheap!(TokBH, 10);

// ---------------------------------------------------------------------------------------------
// zero-size tokens
// ---------------------------------------------------------------------------------------------

macro_rules! tokz {
    ($name:ident, $class:expr) => {
        pub struct $name {
            _p: (),
        }
        impl Val for $name {
            const CLASS: u8 = $class;
            const TRACKED: bool = false;
            const ZST: bool = true;
            const COUNTED: bool = true;
            fn make(_pay: u64) -> Self {
                ledger::zst_create($class);
                $name { _p: () }
            }
            fn obs(&self) -> Obs {
                Obs { inst: 0, pay: 0 }
            }
            fn set_pay(&mut self, _pay: u64) {}
            fn norm(_pay: u64) -> u64 {
                0
            }
        }
        impl Drop for $name {
            fn drop(&mut self) {
                ledger::zst_destroy($class);
                on_drop();
            }
        }
        impl Clone for $name {
            fn clone(&self) -> Self {
                on_clone();
                Self::make(0)
            }
        }
        impl Serialize for $name {
            fn serialize<S: Serializer>(&self, serializer: S) -> Result<S::Ok, S::Error> {
                on_encode::<S::Error>()?;
                ().serialize(serializer)
            }
        }
        impl<'de> Deserialize<'de> for $name {
            fn deserialize<D: Deserializer<'de>>(deserializer: D) -> Result<Self, D::Error> {
                <()>::deserialize(deserializer)?;
                on_decode::<D::Error>()?;
                Ok(Self::make(0))
            }
        }
    };
}

tokz!(TokAZ, 1);
tokz!(TokBZ, 2);

// ---------------------------------------------------------------------------------------------
// plain and std types
// ---------------------------------------------------------------------------------------------

macro_rules! plain_int {
    ($($t:ty),*) => {$(
        impl Val for $t {
            const CLASS: u8 = 0;
            const TRACKED: bool = false;
            fn make(pay: u64) -> Self { pay as $t }
            fn obs(&self) -> Obs { Obs { inst: 0, pay: *self as u64 } }
            fn set_pay(&mut self, pay: u64) { *self = pay as $t; }
            fn norm(pay: u64) -> u64 { pay as $t as u64 }
        }
    )*};
}
plain_int!(u8, u16, u32, u64, usize, i8, i16, i32, i64);

impl Val for u128 {
    const CLASS: u8 = 0;
    const TRACKED: bool = false;
    fn make(pay: u64) -> Self {
        ((!pay as u128) << 64) | pay as u128
    }
    fn obs(&self) -> Obs {
        let lo = *self as u64;
        let hi = (*self >> 64) as u64;
        Obs { inst: 0, pay: if hi == !lo { lo } else { lo ^ hi ^ 0xdead } }
    }
    fn set_pay(&mut self, pay: u64) {
        *self = Self::make(pay);
    }
    fn norm(pay: u64) -> u64 {
        pay
    }
}

macro_rules! plain_arr3 {
    ($($t:ty),*) => {$(
        impl Val for [$t; 3] {
            const CLASS: u8 = 0;
            const TRACKED: bool = false;
            fn make(pay: u64) -> Self { [pay as $t, (pay >> 8) as $t, (pay >> 16) as $t] }
            fn obs(&self) -> Obs {
                // injective on what make() produces for payloads below 2^24 reduced per element
                let mut h = crate::FNV_INIT;
                for x in self { crate::fold(&mut h, *x as u64); }
                Obs { inst: 0, pay: h }
            }
            fn set_pay(&mut self, pay: u64) { *self = Self::make(pay); }
            fn norm(pay: u64) -> u64 { Self::make(pay).obs().pay }
        }
    )*};
}
plain_arr3!(u8, u16, u32, u64);

/// Over-aligned plain data.
#[derive(Clone, Copy, Debug, PartialEq, Eq, Serialize, Deserialize)]
#[repr(C, align(16))]
pub struct Al16(pub u64);

impl Val for Al16 {
    const CLASS: u8 = 0;
    const TRACKED: bool = false;
    fn make(pay: u64) -> Self {
        Al16(pay)
    }
    fn obs(&self) -> Obs {
        Obs { inst: 0, pay: self.0 }
    }
    fn set_pay(&mut self, pay: u64) {
        self.0 = pay;
    }
    fn norm(pay: u64) -> u64 {
        pay
    }
}

/// Plain data aligned beyond what the global allocator and u128 give (32 bytes).
#[derive(Clone, Copy, Debug, PartialEq, Eq, Serialize, Deserialize)]
#[repr(C, align(32))]
pub struct Al32(pub u64, pub u64);

impl Val for Al32 {
    const CLASS: u8 = 0;
    const TRACKED: bool = false;
    fn make(pay: u64) -> Self {
        Al32(pay, !pay)
    }
    fn obs(&self) -> Obs {
        Obs { inst: 0, pay: if self.1 == !self.0 { self.0 } else { self.0 ^ 0xbad } }
    }
    fn set_pay(&mut self, pay: u64) {
        *self = Self::make(pay);
    }
    fn norm(pay: u64) -> u64 {
        pay
    }
}

/// Plain data whose size (12) is not a multiple of 8 with alignment 4.
#[derive(Clone, Copy, Debug, PartialEq, Eq, Serialize, Deserialize)]
#[repr(C)]
pub struct P12(pub u32, pub u32, pub u32);

impl Val for P12 {
    const CLASS: u8 = 0;
    const TRACKED: bool = false;
    fn make(pay: u64) -> Self {
        P12(pay as u32, (pay >> 32) as u32, !(pay as u32))
    }
    fn obs(&self) -> Obs {
        let p = self.0 as u64 | ((self.1 as u64) << 32);
        Obs { inst: 0, pay: if self.2 == !self.0 { p } else { !p } }
    }
    fn set_pay(&mut self, pay: u64) {
        *self = Self::make(pay);
    }
    fn norm(pay: u64) -> u64 {
        pay
    }
}

impl Val for bool {
    const CLASS: u8 = 0;
    const TRACKED: bool = false;
    fn make(pay: u64) -> Self {
        pay % 2 == 1
    }
    fn obs(&self) -> Obs {
        Obs { inst: 0, pay: *self as u64 }
    }
    fn set_pay(&mut self, pay: u64) {
        *self = pay % 2 == 1;
    }
    fn norm(pay: u64) -> u64 {
        pay % 2
    }
}

impl Val for char {
    const CLASS: u8 = 0;
    const TRACKED: bool = false;
    fn make(pay: u64) -> Self {
        // printable, includes non-ASCII and characters JSON must escape
        char::from_u32(0x20 + (pay % 0x2000) as u32).unwrap_or('?')
    }
    fn obs(&self) -> Obs {
        Obs { inst: 0, pay: *self as u64 }
    }
    fn set_pay(&mut self, pay: u64) {
        *self = Self::make(pay);
    }
    fn norm(pay: u64) -> u64 {
        Self::make(pay) as u64
    }
}

impl Val for f64 {
    const CLASS: u8 = 0;
    const TRACKED: bool = false;
    fn make(pay: u64) -> Self {
        // exactly representable, round-trips through JSON
        (pay % (1 << 40)) as f64 + 0.5
    }
    fn obs(&self) -> Obs {
        Obs { inst: 0, pay: self.to_bits() }
    }
    fn set_pay(&mut self, pay: u64) {
        *self = Self::make(pay);
    }
    fn norm(pay: u64) -> u64 {
        Self::make(pay).to_bits()
    }
}

impl Val for i128 {
    const CLASS: u8 = 0;
    const TRACKED: bool = false;
    fn make(pay: u64) -> Self {
        // the whole width is used and every other payload is negative
        let hi = if pay % 2 == 1 { !pay } else { pay };
        (((hi as u128) << 64) | (pay.rotate_left(17) ^ 0x8000_0000_0000_0001) as u128) as i128
    }
    fn obs(&self) -> Obs {
        let lo = (*self as u128) as u64;
        let hi = ((*self as u128) >> 64) as u64;
        let pay = (lo ^ 0x8000_0000_0000_0001).rotate_right(17);
        let ok = hi == if pay % 2 == 1 { !pay } else { pay };
        Obs { inst: 0, pay: if ok { pay } else { lo ^ hi ^ 0xbad } }
    }
    fn set_pay(&mut self, pay: u64) {
        *self = Self::make(pay);
    }
    fn norm(pay: u64) -> u64 {
        pay
    }
}

/// A tuple with padding inside (1 + 3 padding + 4 bytes).
impl Val for (u8, u32) {
    const CLASS: u8 = 0;
    const TRACKED: bool = false;
    fn make(pay: u64) -> Self {
        (pay as u8, (pay >> 8) as u32)
    }
    fn obs(&self) -> Obs {
        Obs { inst: 0, pay: self.0 as u64 | (self.1 as u64) << 8 }
    }
    fn set_pay(&mut self, pay: u64) {
        *self = Self::make(pay);
    }
    fn norm(pay: u64) -> u64 {
        pay & 0xff_ffff_ffff
    }
}

/// Nested generic heap owner.
impl Val for Vec<String> {
    const CLASS: u8 = 0;
    const TRACKED: bool = false;
    fn make(pay: u64) -> Self {
        vec![text_of(pay), text_of(pay + 1)]
    }
    fn obs(&self) -> Obs {
        let ok = self.len() == 2 && pay_of_text(&self[1]) == pay_of_text(&self[0]).wrapping_add(1);
        Obs { inst: 0, pay: if ok { pay_of_text(&self[0]) } else { u64::MAX } }
    }
    fn set_pay(&mut self, pay: u64) {
        *self = Self::make(pay);
    }
    fn norm(pay: u64) -> u64 {
        pay
    }
}

/// An array of droppable values.
impl Val for [TokA8; 2] {
    const CLASS: u8 = 1;
    const TRACKED: bool = false;
    const INSTANCES: usize = 2;
    fn make(pay: u64) -> Self {
        [TokA8::make(pay), TokA8::make(pay ^ 0x5a5a)]
    }
    fn obs(&self) -> Obs {
        let (a, b) = (self[0].obs(), self[1].obs());
        // both instances must be alive for the observation to be the expected one
        let ok = b.pay == (a.pay ^ 0x5a5a) & 0xffff_ffff && ledger::is_live(a.inst) && ledger::is_live(b.inst);
        Obs { inst: 0, pay: if ok { a.pay } else { u64::MAX } }
    }
    fn set_pay(&mut self, pay: u64) {
        self[0].set_pay(pay);
        self[1].set_pay(pay ^ 0x5a5a);
    }
    fn norm(pay: u64) -> u64 {
        pay as u32 as u64
    }
}

/// Large plain data (128 bytes): makes wide records.
impl Val for [u64; 16] {
    const CLASS: u8 = 0;
    const TRACKED: bool = false;
    fn make(pay: u64) -> Self {
        let mut a = [0u64; 16];
        for (i, x) in a.iter_mut().enumerate() {
            *x = pay.wrapping_mul(i as u64 + 1) ^ (i as u64);
        }
        a
    }
    fn obs(&self) -> Obs {
        let pay = self[0];
        let ok = self.iter().enumerate().all(|(i, x)| *x == pay.wrapping_mul(i as u64 + 1) ^ (i as u64));
        Obs { inst: 0, pay: if ok { pay } else { !pay } }
    }
    fn set_pay(&mut self, pay: u64) {
        *self = Self::make(pay);
    }
    fn norm(pay: u64) -> u64 {
        pay
    }
}

impl Val for () {
    const CLASS: u8 = 0;
    const TRACKED: bool = false;
    const ZST: bool = true;
    fn make(_pay: u64) -> Self {}
    fn obs(&self) -> Obs {
        Obs::default()
    }
    fn set_pay(&mut self, _pay: u64) {}
    fn norm(_pay: u64) -> u64 {
        0
    }
}

impl Val for [u64; 0] {
    const CLASS: u8 = 0;
    const TRACKED: bool = false;
    const ZST: bool = true;
    fn make(_pay: u64) -> Self {
        []
    }
    fn obs(&self) -> Obs {
        Obs::default()
    }
    fn set_pay(&mut self, _pay: u64) {}
    fn norm(_pay: u64) -> u64 {
        0
    }
}

/// Text of a payload: every third payload carries characters that need escaping in JSON.
fn text_of(pay: u64) -> String {
    if pay % 3 == 0 {
        format!("s{}\n\"q\\", pay)
    } else {
        format!("s{}", pay)
    }
}

fn pay_of_text(s: &str) -> u64 {
    let digits: String = s.strip_prefix('s').unwrap_or("").chars().take_while(|c| c.is_ascii_digit()).collect();
    match digits.parse::<u64>() {
        Ok(p) if text_of(p) == s => p,
        _ => u64::MAX,
    }
}

impl Val for String {
    const CLASS: u8 = 0;
    const TRACKED: bool = false;
    fn make(pay: u64) -> Self {
        text_of(pay)
    }
    fn obs(&self) -> Obs {
        Obs { inst: 0, pay: pay_of_text(self) }
    }
    fn set_pay(&mut self, pay: u64) {
        self.clear();
        self.push_str(&text_of(pay));
    }
    fn norm(pay: u64) -> u64 {
        pay
    }
}

impl Val for Box<str> {
    const CLASS: u8 = 0;
    const TRACKED: bool = false;
    fn make(pay: u64) -> Self {
        text_of(pay).into_boxed_str()
    }
    fn obs(&self) -> Obs {
        Obs { inst: 0, pay: pay_of_text(self) }
    }
    fn set_pay(&mut self, pay: u64) {
        *self = text_of(pay).into_boxed_str();
    }
    fn norm(pay: u64) -> u64 {
        pay
    }
}

impl Val for Vec<u32> {
    const CLASS: u8 = 0;
    const TRACKED: bool = false;
    fn make(pay: u64) -> Self {
        vec![pay as u32, (pay >> 32) as u32, 0x7ac3]
    }
    fn obs(&self) -> Obs {
        let pay = if self.len() == 3 && self[2] == 0x7ac3 { self[0] as u64 | ((self[1] as u64) << 32) } else { u64::MAX };
        Obs { inst: 0, pay }
    }
    fn set_pay(&mut self, pay: u64) {
        self.clear();
        self.extend_from_slice(&[pay as u32, (pay >> 32) as u32, 0x7ac3]);
    }
    fn norm(pay: u64) -> u64 {
        pay
    }
}

impl<T: Val> Val for Box<T> {
    const CLASS: u8 = T::CLASS;
    const TRACKED: bool = T::TRACKED;
    fn make(pay: u64) -> Self {
        Box::new(T::make(pay))
    }
    fn obs(&self) -> Obs {
        (**self).obs()
    }
    fn set_pay(&mut self, pay: u64) {
        (**self).set_pay(pay)
    }
    fn norm(pay: u64) -> u64 {
        T::norm(pay)
    }
}

/// `Option<T>`: payloads divisible by 5 make `None` (observed as instance 0, payload `u64::MAX - 1`).
impl<T: Val> Val for Option<T> {
    const CLASS: u8 = T::CLASS;
    const TRACKED: bool = T::TRACKED;
    fn make(pay: u64) -> Self {
        if pay % 5 == 0 {
            None
        } else {
            Some(T::make(pay))
        }
    }
    fn obs(&self) -> Obs {
        match self {
            Some(t) => t.obs(),
            None => Obs { inst: 0, pay: u64::MAX - 1 },
        }
    }
    fn set_pay(&mut self, pay: u64) {
        match self {
            Some(t) if pay % 5 != 0 => t.set_pay(pay),
            _ => {}
        }
    }
    fn norm(pay: u64) -> u64 {
        if pay % 5 == 0 {
            u64::MAX - 1
        } else {
            T::norm(pay)
        }
    }
}
