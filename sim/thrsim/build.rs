include!("src/defs.rs");

fn main() {
    let out_dir = std::path::PathBuf::from(std::env::var("OUT_DIR").unwrap());
    let mut top = String::new();
    for d in thr_defs() {
        let (code, _) = generate_thr_def(&d);
        std::fs::write(out_dir.join(format!("{}.rs", d.name)), code).unwrap();
        top.push_str(&format!("#[allow(dead_code, unused_imports, unused_variables, clippy::all)]\npub mod {} {{ include!(concat!(env!(\"OUT_DIR\"), \"/{}.rs\")); }}\n", d.name, d.name));
    }
    std::fs::write(out_dir.join("thr_mods.rs"), top).unwrap();
}
