//! SIM-T compile gate: emits one probe per (definition, variant, trait) plus controls.
//! usage: thrgen <out-dir>
#![allow(dead_code)]
include!("../defs.rs");

fn main() {
    let out = std::path::PathBuf::from(std::env::args().nth(1).unwrap());
    std::fs::create_dir_all(&out).unwrap();
    let mut probes = Vec::new();
    // sanity of the stubs themselves: every field type must really have the Send / Sync flags the
    // expectations are computed from (a disagreement is a harness error, never a verdict)
    let mut seen = std::collections::BTreeSet::new();
    for d in thr_defs() {
        for (adds, _) in &d.variants {
            for fld in adds {
                if !seen.insert(fld.ty) {
                    continue;
                }
                for (tr, has) in [("Send", fld.send), ("Sync", fld.sync)] {
                    let file = format!("stub_{}_{}.rs", seen.len(), tr);
                    let body = format!("extern crate thrtypes;\nfn needs<T: {}>() {{}}\npub fn probe() {{ needs::<{}>(); }}\n", tr, fld.ty);
                    std::fs::write(out.join(&file), body).unwrap();
                    probes.push(serde_json::json!({"file": file, "definition": "stub", "stub_type": fld.ty, "trait": tr, "expect": if has { "stub-accept" } else { "stub-reject" }}));
                }
            }
        }
    }
    for d in thr_defs() {
        let (code, expectations) = generate_thr_def(&d);
        let head = format!("#![allow(dead_code, unused_imports, unused_variables, clippy::all)]\n#[macro_use]\nextern crate static_assertions;\nextern crate truc_runtime;\nextern crate thrtypes;\npub mod m {{\n{}\n}}\nfn needs_send<T: Send>() {{}}\nfn needs_sync<T: Sync>() {{}}\n", code);
        let control = format!("{}_control.rs", d.name);
        std::fs::write(out.join(&control), &head).unwrap();
        probes.push(serde_json::json!({"file": control, "definition": d.name, "expect": "compile"}));
        for (v, (fields, send, sync)) in expectations.iter().enumerate() {
            for (tr, has) in [("Send", *send), ("Sync", *sync)] {
                let file = format!("{}_v{}_{}.rs", d.name, v, tr);
                let body = format!("{}pub fn probe() {{ needs_{}::<m::Record{}>(); }}\n", head, tr.to_lowercase(), v);
                std::fs::write(out.join(&file), body).unwrap();
                probes.push(serde_json::json!({"file": file, "definition": d.name, "variant": v, "trait": tr, "fields": fields, "all_fields_have_it": has, "expect": if has { "accept" } else { "reject" }}));
            }
        }
    }
    std::fs::write(out.join("manifest.json"), serde_json::to_string(&serde_json::json!({"probes": probes})).unwrap()).unwrap();
    println!("{} probes", probes.len());
}
