//! SIM-T schedule search: what safe code can do with a record that is `Send` / `Sync` although one
//! of its fields is not, under shuttle's seeded schedulers.
//!
//! usage: thrsim search <send|sync> <seed> <schedules> <random|pct1|pct2|pct3> [--replay-dir d]
//!        thrsim replay <send|sync> <schedule-file>

#[macro_use]
extern crate static_assertions;

include!(concat!(env!("OUT_DIR"), "/thr_mods.rs"));

use shuttle::scheduler::{PctScheduler, RandomScheduler};
use shuttle::{thread, Config, FailurePersistence, Runner};
use thrtypes::{ForceSend, RacyCell, RacyRc};

const THREADS: usize = 3;

/// A record holding a `RacyRc` is moved to other threads (one clone each, made on the main thread
/// first so that every thread owns a handle onto the same count) and cloned there concurrently.
fn scenario_send() {
    use rc_then_cell::*;
    let rec = Record1::new(UnpackedRecord1 { n: 7, s: "seven".to_string(), rc: RacyRc::new() });
    let shared = rec.rc().shared();
    let mut handles = Vec::new();
    let mut expected = 1;
    for _ in 0..THREADS {
        // sequential clone on the origin thread: fine
        let moved = ForceSend(rec.clone());
        expected += 1;
        handles.push(thread::spawn(move || {
            let moved = moved;
            // safe code on another thread: clone the record it was sent
            let again = moved.0.clone();
            std::mem::forget(again);
            std::mem::forget(moved);
        }));
        expected += 1;
    }
    for h in handles {
        h.join().unwrap();
    }
    let count = shared.count.load(shuttle::sync::atomic::Ordering::SeqCst);
    std::mem::forget(rec);
    assert_eq!(count, expected, "reference count corrupted: {} clones were counted as {}", expected, count);
}

/// A record holding a `RacyCell` is shared by reference between threads that each bump it.
fn scenario_sync() {
    use cell_only::*;
    let rec: &'static Record0 = Box::leak(Box::new(Record0::new(UnpackedRecord0 { cell: RacyCell::new(0) })));
    let shared = ForceSend(rec);
    let mut handles = Vec::new();
    for _ in 0..THREADS {
        let r = ForceSend(shared.0);
        handles.push(thread::spawn(move || {
            let r = r;
            r.0.cell().bump();
        }));
    }
    for h in handles {
        h.join().unwrap();
    }
    let v = rec.cell().get();
    assert_eq!(v, THREADS, "{} increments through a shared reference were counted as {}", THREADS, v);
}

/// Control: a record whose fields are all `Send + Sync` is sent to and shared between threads by safe code
/// (no `ForceSend`: this only compiles because the record type really is `Send + Sync`) and must survive
/// every schedule.
fn scenario_control() {
    use all_send_sync::*;
    use std::sync::atomic::Ordering;
    let counter = thrtypes::ArcCounter(std::sync::Arc::new(std::sync::atomic::AtomicUsize::new(0)));
    let rec = std::sync::Arc::new(Record0::new(UnpackedRecord0 { a: 1, b: "b".to_string(), c: vec![1, 2, 3], d: counter.clone() }));
    let mut handles = Vec::new();
    for _ in 0..THREADS {
        let shared = rec.clone();
        let owned = (*rec).clone();
        handles.push(thread::spawn(move || {
            shared.d().0.fetch_add(1, Ordering::SeqCst);
            thread::sleep(std::time::Duration::from_millis(0));
            owned.d().0.fetch_add(1, Ordering::SeqCst);
            assert_eq!(owned.c(), &vec![1, 2, 3]);
            assert_eq!(shared.b(), "b");
        }));
    }
    for h in handles {
        h.join().unwrap();
    }
    assert_eq!(counter.0.load(Ordering::SeqCst), 2 * THREADS);
}

fn main() {
    let args: Vec<String> = std::env::args().collect();
    let scenario: fn() = match args.get(2).map(|s| s.as_str()) {
        Some("send") => scenario_send,
        Some("sync") => scenario_sync,
        Some("control") => scenario_control,
        _ => {
            eprintln!("usage: thrsim search|replay send|sync ...");
            std::process::exit(2);
        }
    };
    match args[1].as_str() {
        "search" => {
            let seed: u64 = args[3].parse().unwrap();
            let schedules: usize = args[4].parse().unwrap();
            let kind = args[5].as_str();
            let dir = args.iter().position(|a| a == "--replay-dir").and_then(|i| args.get(i + 1)).cloned();
            let mut config = Config::new();
            config.failure_persistence = match dir {
                Some(d) => FailurePersistence::File(Some(d.into())),
                None => FailurePersistence::Print,
            };
            // one schedule at a time so that failing schedules can be counted, not only the first
            let mut failures = 0usize;
            let mut first_failure: Option<String> = None;
            std::panic::set_hook(Box::new(|_| {}));
            for i in 0..schedules {
                let s = seed.wrapping_mul(0x9e3779b97f4a7c15).wrapping_add(i as u64);
                let cfg = config.clone();
                let kind = kind.to_string();
                let r = std::panic::catch_unwind(move || match kind.as_str() {
                    "random" => Runner::new(RandomScheduler::new_from_seed(s, 1), cfg).run(scenario),
                    k => {
                        let depth = k.trim_start_matches("pct").parse().unwrap_or(1);
                        Runner::new(PctScheduler::new_from_seed(s, depth, 1), cfg).run(scenario)
                    }
                });
                if let Err(p) = r {
                    failures += 1;
                    if first_failure.is_none() {
                        let msg = p.downcast_ref::<String>().cloned().or_else(|| p.downcast_ref::<&str>().map(|s| s.to_string())).unwrap_or_default();
                        first_failure = Some(format!("schedule seed {}: {}", s, msg));
                    }
                }
            }
            println!("{}", serde_json::json!({"scenario": args[2], "scheduler": kind, "schedules": schedules, "failing_schedules": failures, "first_failure": first_failure}));
        }
        "replay" => {
            shuttle::replay_from_file(scenario, &args[3]);
            println!("replay: the recorded schedule did not fail");
        }
        _ => std::process::exit(2),
    }
}
