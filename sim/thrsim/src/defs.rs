// Shared between build.rs and the probe emitter (included with include!): the SIM-T definitions.
// Each field type comes with what it really is: (rust type, Send, Sync).

pub struct ThrField {
    pub name: &'static str,
    pub ty: &'static str,
    pub send: bool,
    pub sync: bool,
    /// declared as allowed to stay uninitialised (Copy types only)
    pub uninit: bool,
}

pub struct ThrDef {
    pub name: &'static str,
    /// per variant: fields added, names removed
    pub variants: Vec<(Vec<ThrField>, Vec<&'static str>)>,
}

fn f(name: &'static str, ty: &'static str, send: bool, sync: bool) -> ThrField {
    ThrField { name, ty, send, sync, uninit: false }
}

fn fu(name: &'static str, ty: &'static str, send: bool, sync: bool) -> ThrField {
    ThrField { name, ty, send, sync, uninit: true }
}

/// (type, Send, Sync, Copy)
const SPECIAL: &[(&str, &str, bool, bool, bool)] = &[
    ("racy_rc", "thrtypes::RacyRc", false, false, false),
    ("racy_cell", "thrtypes::RacyCell", true, false, false),
    ("raw_ptr_field", "thrtypes::RawPtrField", false, false, true),
    ("const_ptr", "*const u8", false, false, true),
    ("guard_like", "thrtypes::SyncNotSend", false, true, false),
    ("guard_like_copy", "thrtypes::SyncNotSendCopy", false, true, true),
    ("zst_not_send_sync", "thrtypes::ZstNotSendSync", false, false, true),
    ("zst_not_sync", "thrtypes::ZstNotSync", true, false, true),
    ("arc_counter", "thrtypes::ArcCounter", true, true, false),
    ("plain_u64", "u64", true, true, true),
];

/// For every special type, mandatory and (if Copy) may-be-uninit: present in the first variant next
/// to ordinary data, removed in the second, added again in the third.
fn systematic_defs() -> Vec<ThrDef> {
    let mut out = Vec::new();
    for &(name, ty, send, sync, copy) in SPECIAL {
        for uninit in [false, true] {
            if uninit && !copy {
                continue;
            }
            let mk = |n: &'static str| if uninit { fu(n, ty, send, sync) } else { f(n, ty, send, sync) };
            out.push(ThrDef {
                name: Box::leak(format!("sys_{}{}", name, if uninit { "_uninit" } else { "" }).into_boxed_str()),
                variants: vec![(vec![f("x", "u64", true, true), mk("t")], vec![]), (vec![fu("y", "u32", true, true)], vec!["t"]), (vec![mk("t2")], vec!["x"])],
            });
            // the special field stays while other fields come and go
            out.push(ThrDef {
                name: Box::leak(format!("kept_{}{}", name, if uninit { "_uninit" } else { "" }).into_boxed_str()),
                variants: vec![(vec![f("x", "u64", true, true), mk("t")], vec![]), (vec![fu("y", "u32", true, true)], vec![]), (vec![f("z", "String", true, true)], vec!["x"]), (vec![], vec!["y"])],
            });
        }
    }
    // many data in one variant: the special type first, around the 12th position and last
    const NAMES: [&str; 27] = ["a0", "a1", "a2", "a3", "a4", "a5", "a6", "a7", "a8", "a9", "a10", "a11", "a12", "a13", "a14", "a15", "a16", "a17", "a18", "a19", "a20", "a21", "a22", "a23", "a24", "a25", "a26"];
    for &(name, ty, send, sync, _) in SPECIAL.iter().filter(|s| !(s.2 && s.3)).take(3) {
        for total in [13usize, 14, 27] {
            let mut positions = vec![0usize, 11, 12, total - 1];
            positions.sort();
            positions.dedup();
            for pos in positions {
                let fields: Vec<ThrField> = (0..total).map(|i| if i == pos { f(NAMES[i], ty, send, sync) } else if i % 3 == 1 { f(NAMES[i], "String", true, true) } else { fu(NAMES[i], "u64", true, true) }).collect();
                out.push(ThrDef { name: Box::leak(format!("many_{}_{}_at{}", name, total, pos).into_boxed_str()), variants: vec![(fields, vec![])] });
            }
        }
    }
    out
}

pub fn thr_defs() -> Vec<ThrDef> {
    vec![
        ThrDef {
            name: "rc_then_cell",
            variants: vec![
                (vec![f("n", "u64", true, true), f("s", "String", true, true)], vec![]),
                (vec![f("rc", "thrtypes::RacyRc", false, false)], vec![]),
                (vec![f("cell", "thrtypes::RacyCell", true, false)], vec!["rc"]),
            ],
        },
        ThrDef {
            name: "raw_pointer",
            variants: vec![(vec![f("p", "thrtypes::RawPtrField", false, false), f("k", "u8", true, true)], vec![]), (vec![f("a", "thrtypes::ArcCounter", true, true)], vec!["p"])],
        },
        ThrDef { name: "guard_like", variants: vec![(vec![f("g", "thrtypes::SyncNotSend", false, true), f("x", "u32", true, true)], vec![]), (vec![], vec!["g"])] },
        ThrDef { name: "empty_then_rc", variants: vec![(vec![], vec![]), (vec![f("rc", "thrtypes::RacyRc", false, false)], vec![])] },
        ThrDef {
            name: "all_send_sync",
            variants: vec![
                (vec![f("a", "u64", true, true), f("b", "String", true, true), f("c", "Vec<u32>", true, true), f("d", "thrtypes::ArcCounter", true, true)], vec![]),
                (vec![f("e", "Option<String>", true, true), f("z", "()", true, true)], vec!["b"]),
            ],
        },
        ThrDef { name: "cell_only", variants: vec![(vec![f("cell", "thrtypes::RacyCell", true, false)], vec![])] },
    ]
    .into_iter()
    .chain(systematic_defs())
    .collect()
}

pub fn add_field<R: truc::record::type_resolver::TypeResolver>(
    b: &mut truc::record::definition::builder::native::NativeRecordDefinitionBuilder<R>,
    fld: &ThrField,
) -> truc::record::definition::DatumId {
    macro_rules! add {
        ($t:ty) => {
            if fld.uninit {
                b.add_datum_override::<$t, _>(
                    fld.name,
                    truc::record::definition::builder::native::DatumDefinitionOverride { type_name: None, size: None, align: None, allow_uninit: Some(true) },
                )
            } else {
                b.add_datum::<$t, _>(fld.name)
            }
        };
    }
    match fld.ty {
        "u64" => add!(u64),
        "u32" => add!(u32),
        "u8" => add!(u8),
        "()" => add!(()),
        "*const u8" => add!(*const u8),
        "String" => add!(String),
        "Vec<u32>" => add!(Vec<u32>),
        "Option<String>" => add!(Option<String>),
        "thrtypes::RacyRc" => add!(thrtypes::RacyRc),
        "thrtypes::RacyCell" => add!(thrtypes::RacyCell),
        "thrtypes::RawPtrField" => add!(thrtypes::RawPtrField),
        "thrtypes::SyncNotSend" => add!(thrtypes::SyncNotSend),
        "thrtypes::SyncNotSendCopy" => add!(thrtypes::SyncNotSendCopy),
        "thrtypes::ArcCounter" => add!(thrtypes::ArcCounter),
        "thrtypes::ZstNotSendSync" => add!(thrtypes::ZstNotSendSync),
        "thrtypes::ZstNotSync" => add!(thrtypes::ZstNotSync),
        other => panic!("unknown SIM-T field type {}", other),
    }
    .unwrap()
}

/// (generated code, per variant: (fields alive, all Send, all Sync))
pub fn generate_thr_def(d: &ThrDef) -> (String, Vec<(Vec<String>, bool, bool)>) {
    use truc::generator::fragment::clone::CloneImplGenerator;
    use truc::generator::fragment::FragmentGenerator;
    let mut b = truc::record::definition::builder::native::NativeRecordDefinitionBuilder::new(truc::record::type_resolver::HostTypeResolver);
    let mut ids = std::collections::BTreeMap::new();
    let mut alive: Vec<&ThrField> = Vec::new();
    let mut expectations = Vec::new();
    for (adds, removes) in &d.variants {
        for r in removes {
            b.remove_datum(ids[*r]).unwrap();
            alive.retain(|x| x.name != *r);
        }
        for a in adds {
            ids.insert(a.name, add_field(&mut b, a));
            alive.push(a);
        }
        b.close_record_variant();
        expectations.push((alive.iter().map(|x| format!("{}: {}", x.name, x.ty)).collect(), alive.iter().all(|x| x.send), alive.iter().all(|x| x.sync)));
    }
    let def = b.build();
    let config = truc::generator::config::GeneratorConfig::default_with_custom_generators([Box::new(CloneImplGenerator) as Box<dyn FragmentGenerator>]);
    (truc::generator::generate(&def, &config), expectations)
}
