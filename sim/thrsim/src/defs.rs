// Shared between build.rs and the probe emitter (included with include!): the SIM-T definitions.
// Each field type comes with what it really is: (rust type, Send, Sync).

pub struct ThrField {
    pub name: &'static str,
    pub ty: &'static str,
    pub send: bool,
    pub sync: bool,
}

pub struct ThrDef {
    pub name: &'static str,
    /// per variant: fields added, names removed
    pub variants: Vec<(Vec<ThrField>, Vec<&'static str>)>,
}

fn f(name: &'static str, ty: &'static str, send: bool, sync: bool) -> ThrField {
    ThrField { name, ty, send, sync }
}

pub fn thr_defs() -> Vec<ThrDef> {
    vec![
        ThrDef {
            name: "rc_then_cell",
            variants: vec![
                (vec![f("n", "u64", true, true), f("s", "String", true, true)], vec![]),
                (vec![f("rc", "thrtypes::RacyRc", false, false)], vec![]),
                (vec![f("cell", "thrtypes::RacyCell", true, false)], vec!["rc"]),
            ],
        },
        ThrDef {
            name: "raw_pointer",
            variants: vec![(vec![f("p", "thrtypes::RawPtrField", false, false), f("k", "u8", true, true)], vec![]), (vec![f("a", "thrtypes::ArcCounter", true, true)], vec!["p"])],
        },
        ThrDef { name: "guard_like", variants: vec![(vec![f("g", "thrtypes::SyncNotSend", false, true), f("x", "u32", true, true)], vec![]), (vec![], vec!["g"])] },
        ThrDef { name: "empty_then_rc", variants: vec![(vec![], vec![]), (vec![f("rc", "thrtypes::RacyRc", false, false)], vec![])] },
        ThrDef {
            name: "all_send_sync",
            variants: vec![
                (vec![f("a", "u64", true, true), f("b", "String", true, true), f("c", "Vec<u32>", true, true), f("d", "thrtypes::ArcCounter", true, true)], vec![]),
                (vec![f("e", "Option<String>", true, true), f("z", "()", true, true)], vec!["b"]),
            ],
        },
        ThrDef { name: "cell_only", variants: vec![(vec![f("cell", "thrtypes::RacyCell", true, false)], vec![])] },
    ]
}

pub fn add_field<R: truc::record::type_resolver::TypeResolver>(
    b: &mut truc::record::definition::builder::native::NativeRecordDefinitionBuilder<R>,
    fld: &ThrField,
) -> truc::record::definition::DatumId {
    match fld.ty {
        "u64" => b.add_datum::<u64, _>(fld.name),
        "u32" => b.add_datum::<u32, _>(fld.name),
        "u8" => b.add_datum::<u8, _>(fld.name),
        "()" => b.add_datum::<(), _>(fld.name),
        "String" => b.add_datum::<String, _>(fld.name),
        "Vec<u32>" => b.add_datum::<Vec<u32>, _>(fld.name),
        "Option<String>" => b.add_datum::<Option<String>, _>(fld.name),
        "thrtypes::RacyRc" => b.add_datum::<thrtypes::RacyRc, _>(fld.name),
        "thrtypes::RacyCell" => b.add_datum::<thrtypes::RacyCell, _>(fld.name),
        "thrtypes::RawPtrField" => b.add_datum::<thrtypes::RawPtrField, _>(fld.name),
        "thrtypes::SyncNotSend" => b.add_datum::<thrtypes::SyncNotSend, _>(fld.name),
        "thrtypes::ArcCounter" => b.add_datum::<thrtypes::ArcCounter, _>(fld.name),
        other => panic!("unknown SIM-T field type {}", other),
    }
    .unwrap()
}

/// (generated code, per variant: (fields alive, all Send, all Sync))
pub fn generate_thr_def(d: &ThrDef) -> (String, Vec<(Vec<String>, bool, bool)>) {
    use truc::generator::fragment::clone::CloneImplGenerator;
    use truc::generator::fragment::FragmentGenerator;
    let mut b = truc::record::definition::builder::native::NativeRecordDefinitionBuilder::new(truc::record::type_resolver::HostTypeResolver);
    let mut ids = std::collections::BTreeMap::new();
    let mut alive: Vec<&ThrField> = Vec::new();
    let mut expectations = Vec::new();
    for (adds, removes) in &d.variants {
        for r in removes {
            b.remove_datum(ids[*r]).unwrap();
            alive.retain(|x| x.name != *r);
        }
        for a in adds {
            ids.insert(a.name, add_field(&mut b, a));
            alive.push(a);
        }
        b.close_record_variant();
        expectations.push((alive.iter().map(|x| format!("{}: {}", x.name, x.ty)).collect(), alive.iter().all(|x| x.send), alive.iter().all(|x| x.sync)));
    }
    let def = b.build();
    let config = truc::generator::config::GeneratorConfig::default_with_custom_generators([Box::new(CloneImplGenerator) as Box<dyn FragmentGenerator>]);
    (truc::generator::generate(&def, &config), expectations)
}
