//! Definition swarm and glue emitter of SIM-R (also used by SIM-F, SIM-D, SIM-T).
//!
//! A `Plan` is a replayable history of builder requests over a catalogue of field types. It is
//! replayed into the real `NativeRecordDefinitionBuilder`, closed by the real strategies and
//! handed to the real `generate()`. The glue module is emitted from the resulting
//! `RecordDefinition` using names, types, variant membership and may-be-uninit flags only.

use serde::{Deserialize, Serialize};
use simrt::rng::Rng;
use simrt::tok::*;
use std::fmt::Write as _;
use truc::generator::config::GeneratorConfig;
use truc::generator::fragment::clone::CloneImplGenerator;
use truc::generator::fragment::serde::SerdeImplGenerator;
use truc::generator::fragment::FragmentGenerator;
use truc::record::definition::builder::native::variant::{append_data, append_data_reverse, basic, simple};
use truc::record::definition::builder::native::NativeRecordDefinitionBuilder;
use truc::record::definition::{DatumId, NativeDatumDetails, RecordDefinition};
use truc::record::definition::builder::native::DatumDefinitionOverride;
use truc::record::type_resolver::{HostTypeResolver, StaticTypeResolver, TypeResolver};

pub mod glue;
pub mod stale;

#[derive(Serialize, Deserialize, Clone, Copy, Debug, PartialEq, Eq, PartialOrd, Ord)]
pub enum Strategy {
    Simple,
    Basic,
    Append,
    AppendReverse,
}

#[derive(Serialize, Deserialize, Clone, Debug, PartialEq, Eq)]
pub enum Req {
    /// adds field number `index` (= number of `Add` requests before this one) of catalogue type `ty`, named
    /// `f<index>` unless `name` reuses the name of a field removed earlier
    Add {
        ty: String,
        uninit: bool,
        #[serde(default, skip_serializing_if = "Option::is_none")]
        name: Option<String>,
        /// add through `copy_datum` from a datum of another, already built definition (where it has an offset)
        #[serde(default, skip_serializing_if = "std::ops::Not::not")]
        via_copy: bool,
    },
    /// removes field `f<field>`
    Remove { field: usize },
    Close { strategy: Strategy },
}

#[derive(Serialize, Deserialize, Clone, Debug, PartialEq, Eq)]
pub struct Plan {
    pub name: String,
    pub clone: bool,
    pub serde: bool,
    /// build through a pre-computed type table (`StaticTypeResolver` of the whole catalogue): typed adds are
    /// resolved by the table, every other field is added by type name with `add_dynamic_datum`
    #[serde(default, skip_serializing_if = "std::ops::Not::not")]
    pub table: bool,
    pub reqs: Vec<Req>,
}

#[derive(Clone, Copy, Debug)]
pub struct TypeEntry {
    pub key: &'static str,
    /// how the glue names the type (must denote the same type as the name truc records)
    pub path: &'static str,
    pub copy: bool,
    pub tracked: bool,
    pub zst: bool,
    pub counted_class: u8,
    pub size: usize,
    pub align: usize,
    pub send: bool,
    pub sync: bool,
}

/// Per catalogue type: the real typed entry points of the builder and of the type table.
pub trait CatType: Sized + 'static {
    const COPY: bool;
    fn add<R: TypeResolver>(b: &mut NativeRecordDefinitionBuilder<R>, name: &str, uninit: bool) -> Result<DatumId, String>;
    fn register(r: &mut StaticTypeResolver);
    fn recorded_name() -> String {
        HostTypeResolver.type_info::<Self>().name
    }
}

macro_rules! cat_copy {
    ($($t:ty),* $(,)?) => {$(
        impl CatType for $t {
            const COPY: bool = true;
            fn add<R: TypeResolver>(b: &mut NativeRecordDefinitionBuilder<R>, name: &str, uninit: bool) -> Result<DatumId, String> {
                if uninit {
                    b.add_datum_allow_uninit::<$t, _>(name)
                } else {
                    b.add_datum::<$t, _>(name)
                }
            }
            fn register(r: &mut StaticTypeResolver) {
                r.add_type_allow_uninit::<$t>();
            }
        }
    )*};
}

macro_rules! cat_own {
    ($($t:ty),* $(,)?) => {$(
        impl CatType for $t {
            const COPY: bool = false;
            fn add<R: TypeResolver>(b: &mut NativeRecordDefinitionBuilder<R>, name: &str, uninit: bool) -> Result<DatumId, String> {
                if uninit {
                    // only SIM-F asks for this (may-be-uninit on a type that is not Copy): the typed entry
                    // point refuses it at compile time, the override entry point does not
                    b.add_datum_override::<$t, _>(name, DatumDefinitionOverride { type_name: None, size: None, align: None, allow_uninit: Some(true) })
                } else {
                    b.add_datum::<$t, _>(name)
                }
            }
            fn register(r: &mut StaticTypeResolver) {
                r.add_type::<$t>();
            }
        }
    )*};
}

cat_copy!(bool, char, f64, i128, (u8, u32), u8, u16, u32, u64, u128, usize, [u8; 3], [u16; 3], [u32; 3], [u64; 3], [u64; 16], Al16, Al32, P12, (), [u64; 0]);
cat_own!(Vec<String>, [TokA8; 2], TokA8, TokB8, TokA3, TokA16, TokA64, TokAH, TokAZ, String, Box<str>, Vec<u32>, Box<TokA8>, Option<TokA8>);

macro_rules! catalogue {
    ($( ($key:expr, $t:ty, $path:expr, $copy:expr) ),* $(,)?) => {
        pub fn catalogue() -> Vec<TypeEntry> {
            vec![$( TypeEntry {
                key: $key, path: $path, copy: <$t as CatType>::COPY,
                tracked: <$t as Val>::TRACKED, zst: <$t as Val>::ZST,
                counted_class: if <$t as Val>::COUNTED { <$t as Val>::CLASS } else { 0 },
                size: std::mem::size_of::<$t>(), align: std::mem::align_of::<$t>(),
                send: true, sync: true,
            } ),*]
        }

        fn add_typed<R: TypeResolver>(b: &mut NativeRecordDefinitionBuilder<R>, key: &str, name: &str, uninit: bool) -> Result<DatumId, String> {
            $( if key == $key {
                let _: bool = $copy;
                return <$t as CatType>::add(b, name, uninit);
            } )*
            Err(format!("unknown catalogue type {}", key))
        }

        /// the name truc records for a catalogue type (what `add_dynamic_datum` is asked for)
        pub fn recorded_type_name(key: &str) -> String {
            $( if key == $key {
                return <$t as CatType>::recorded_name();
            } )*
            panic!("unknown catalogue type {}", key)
        }

        /// typed entry point with explicit overrides (SIM-F: stale size / alignment / may-be-uninit flag)
        pub fn add_typed_override(b: &mut NativeRecordDefinitionBuilder<HostTypeResolver>, key: &str, name: &str, o: DatumDefinitionOverride) -> Result<DatumId, String> {
            $( if key == $key {
                return b.add_datum_override::<$t, _>(name, o);
            } )*
            Err(format!("unknown catalogue type {}", key))
        }

        /// a pre-computed type table of the whole catalogue, as a cross-compiling user would produce it
        /// (Copy types registered through `add_type_allow_uninit`)
        pub fn catalogue_table() -> StaticTypeResolver {
            let mut r = StaticTypeResolver::new();
            $( <$t as CatType>::register(&mut r); )*
            r
        }
    };
}

catalogue! {
    ("u8", u8, "u8", true),
    ("u16", u16, "u16", true),
    ("u32", u32, "u32", true),
    ("u64", u64, "u64", true),
    ("u128", u128, "u128", true),
    ("usize", usize, "usize", true),
    ("u8x3", [u8; 3], "[u8; 3]", true),
    ("u16x3", [u16; 3], "[u16; 3]", true),
    ("u32x3", [u32; 3], "[u32; 3]", true),
    ("u64x3", [u64; 3], "[u64; 3]", true),
    ("u64x16", [u64; 16], "[u64; 16]", true),
    ("al16", Al16, "simrt::tok::Al16", true),
    ("al32", Al32, "simrt::tok::Al32", true),
    ("p12", P12, "simrt::tok::P12", true),
    ("bool", bool, "bool", true),
    ("char", char, "char", true),
    ("f64", f64, "f64", true),
    ("i128", i128, "i128", true),
    ("tup", (u8, u32), "(u8, u32)", true),
    ("vecstr", Vec<String>, "Vec<String>", false),
    ("tokarr", [TokA8; 2], "[simrt::tok::TokA8; 2]", false),
    ("unit", (), "()", true),
    ("u64x0", [u64; 0], "[u64; 0]", true),
    ("toka8", TokA8, "simrt::tok::TokA8", false),
    ("tokb8", TokB8, "simrt::tok::TokB8", false),
    ("toka3", TokA3, "simrt::tok::TokA3", false),
    ("toka16", TokA16, "simrt::tok::TokA16", false),
    ("toka64", TokA64, "simrt::tok::TokA64", false),
    ("tokah", TokAH, "simrt::tok::TokAH", false),
    ("tokaz", TokAZ, "simrt::tok::TokAZ", false),
    ("string", String, "String", false),
    ("boxstr", Box<str>, "Box<str>", false),
    ("vecu32", Vec<u32>, "Vec<u32>", false),
    ("boxtok", Box<TokA8>, "Box<simrt::tok::TokA8>", false),
    ("opttok", Option<TokA8>, "Option<simrt::tok::TokA8>", false),
}

pub fn type_entry(key: &str) -> TypeEntry {
    catalogue().into_iter().find(|e| e.key == key).unwrap_or_else(|| panic!("unknown catalogue type {}", key))
}

/// A plan replayed into the real builder.
pub struct Built {
    pub plan: Plan,
    pub definition: RecordDefinition<NativeDatumDetails>,
    /// catalogue key of every datum (index = datum id)
    pub keys: Vec<String>,
}

pub fn build(plan: &Plan) -> Result<Built, String> {
    if plan.table {
        let table = catalogue_table();
        build_with(plan, NativeRecordDefinitionBuilder::new(&table), true)
    } else {
        build_with(plan, NativeRecordDefinitionBuilder::new(HostTypeResolver), false)
    }
}

fn build_with<R: TypeResolver>(plan: &Plan, mut b: NativeRecordDefinitionBuilder<R>, dynamic: bool) -> Result<Built, String> {
    let mut ids: Vec<DatumId> = Vec::new();
    let mut keys = Vec::new();
    for req in &plan.reqs {
        match req {
            Req::Add { ty, uninit, name, via_copy } => {
                let name = name.clone().unwrap_or_else(|| format!("f{}", ids.len()));
                let id = if *via_copy {
                    // the datum as it sits in another definition, behind some other data
                    let mut other = NativeRecordDefinitionBuilder::new(HostTypeResolver);
                    other.add_datum::<u64, _>("other_head")?;
                    other.add_datum::<u8, _>("other_flag")?;
                    let oid = add_typed(&mut other, ty, &name, *uninit)?;
                    other.close_record_variant();
                    let other = other.build();
                    b.copy_datum(&other[oid])?
                } else if dynamic && ids.len() % 2 == 1 {
                    // by type name, through the table (the may-be-uninit flag is then the table's: Copy types)
                    b.add_dynamic_datum(name.as_str(), recorded_type_name(ty))?
                } else {
                    add_typed(&mut b, ty, &name, *uninit)?
                };
                if format!("{}", id) != format!("{}", ids.len()) {
                    return Err(format!("datum id {} is not the request index {}", id, ids.len()));
                }
                ids.push(id);
                keys.push(ty.clone());
            }
            Req::Remove { field } => b.remove_datum(*ids.get(*field).ok_or("remove of unknown field")?)?,
            Req::Close { strategy } => {
                match strategy {
                    Strategy::Simple => b.close_record_variant_with(simple),
                    Strategy::Basic => b.close_record_variant_with(basic),
                    Strategy::Append => b.close_record_variant_with(append_data),
                    // now and then the plain entry point (which is documented to use the default strategy)
                    Strategy::AppendReverse => b.close_record_variant_with(append_data_reverse),
                };
            }
        }
    }
    Ok(Built { plan: plan.clone(), definition: b.build(), keys })
}

pub fn generator_config(plan: &Plan) -> GeneratorConfig {
    let mut custom: Vec<Box<dyn FragmentGenerator>> = Vec::new();
    if plan.clone {
        custom.push(Box::new(CloneImplGenerator));
    }
    if plan.serde {
        custom.push(Box::new(SerdeImplGenerator));
    }
    GeneratorConfig::default_with_custom_generators(custom)
}

/// The verbatim output of the real generator.
pub fn generate_module(built: &Built) -> String {
    truc::generator::generate(&built.definition, &generator_config(&built.plan))
}

// ---------------------------------------------------------------------------------------------
// swarm
// ---------------------------------------------------------------------------------------------

#[derive(Clone, Copy, Debug)]
pub struct SwarmOpts {
    pub max_variants: usize,
    pub max_live_fields: usize,
    /// allow zero-size field types
    pub zst: bool,
    /// also use field names that make the generated module fail to compile (text-level simulation only)
    pub clashing_names: bool,
}

impl Default for SwarmOpts {
    fn default() -> Self {
        SwarmOpts { max_variants: 6, max_live_fields: 10, zst: true, clashing_names: false }
    }
}

/// Field names that coincide with identifiers of the generated code or of its glue but still give code that
/// compiles (checked one by one against the pinned tree).
const SAFE_ODD_NAMES: &[&str] = &["this", "source", "other", "value", "result", "size", "capacity", "unpacked", "tuple", "serializer", "deserializer", "formatter", "default"];
/// Names the generated code uses for its own locals, parameters and fields: accepted by the builder and by
/// `generate()`, but the generated module does not compile once such a field is removed (outside the
/// precondition of C13). Only the text-level simulator (SIM-D) uses them.
const CLASHING_NAMES: &[&str] = &["data", "from", "plus", "record", "manually_drop", "seq", "new", "unpack"];
const PLAIN: &[&str] = &["u8", "u16", "u32", "u64", "u128", "usize", "u8x3", "u16x3", "u32x3", "u64x3", "al16", "p12", "u64x16", "al32", "bool", "char", "f64", "i128", "tup"];
const ZSTS: &[&str] = &["unit", "u64x0", "tokaz"];
const TOKENS: &[&str] = &["toka8", "tokb8", "toka3", "toka16", "toka64", "tokah"];
const HEAP: &[&str] = &["string", "vecu32", "boxtok", "opttok", "boxstr", "vecstr", "tokarr"];

/// One definition history drawn from the PRNG (swarm style: the type mix, the strategy mix, the
/// sizes and the fragment selection are themselves drawn per definition).
/// Gap-reuse histories: every variant removes a few fields and adds fields of the same sizes, so
/// that freed bytes are refilled again and again (where the bookkeeping of gaps, list order and
/// offsets matters most); zero-size fields are sprinkled in, preferably early.
fn gen_gap_reuse_plan(rng: &mut Rng, name: &str, opts: &SwarmOpts) -> Plan {
    let n_variants = rng.range(3, opts.max_variants.max(3));
    let clone = rng.chance(2, 3);
    let serde = rng.chance(1, 2);
    let strat_mode = rng.below(4);
    let mut reqs = Vec::new();
    let mut live: Vec<(usize, &'static str)> = Vec::new();
    let mut n_fields = 0usize;
    let sized: Vec<&'static str> = PLAIN.iter().chain(TOKENS.iter()).chain(HEAP.iter()).copied().collect();
    let mut free_names: Vec<String> = Vec::new();
    let mut names: Vec<String> = Vec::new();
    let mut push = |reqs: &mut Vec<Req>, live: &mut Vec<(usize, &'static str)>, ty: &'static str, rng: &mut Rng, free_names: &mut Vec<String>, names: &mut Vec<String>| {
        let e = type_entry(ty);
        let name = if !free_names.is_empty() && rng.chance(1, 2) { Some(free_names.remove(rng.below(free_names.len()))) } else { None };
        names.push(name.clone().unwrap_or_else(|| format!("f{}", n_fields)));
        reqs.push(Req::Add { ty: ty.to_string(), uninit: e.copy && rng.chance(1, 3), name, via_copy: rng.chance(1, 8) });
        live.push((n_fields, ty));
        n_fields += 1;
    };
    if opts.zst && rng.chance(2, 3) {
        push(&mut reqs, &mut live, *rng.pick(ZSTS), rng, &mut free_names, &mut names);
    }
    for _ in 0..rng.range(3, 6) {
        if opts.zst && rng.chance(1, 6) {
            push(&mut reqs, &mut live, *rng.pick(ZSTS), rng, &mut free_names, &mut names);
        }
        push(&mut reqs, &mut live, *rng.pick(&sized), rng, &mut free_names, &mut names);
    }
    let close = |rng: &mut Rng| match strat_mode {
        0 | 1 => Strategy::Simple,
        2 => Strategy::Basic,
        _ => *rng.pick(&[Strategy::Simple, Strategy::Simple, Strategy::Basic, Strategy::Append]),
    };
    reqs.push(Req::Close { strategy: close(rng) });
    for _ in 1..n_variants {
        let candidates: Vec<usize> = (0..live.len()).filter(|&i| !type_entry(live[i].1).zst).collect();
        let n_remove = if candidates.is_empty() { 0 } else { rng.range(1, 2.min(candidates.len())) };
        let mut removed_sizes = Vec::new();
        for _ in 0..n_remove {
            let candidates: Vec<usize> = (0..live.len()).filter(|&i| !type_entry(live[i].1).zst).collect();
            if candidates.is_empty() {
                break;
            }
            let i = candidates[rng.below(candidates.len())];
            let (f, ty) = live.remove(i);
            removed_sizes.push(type_entry(ty).size);
            free_names.push(names[f].clone());
            reqs.push(Req::Remove { field: f });
        }
        // refill with the same sizes (or smaller), then maybe one more field
        for size in removed_sizes {
            let fits: Vec<&'static str> = sized.iter().copied().filter(|t| type_entry(t).size <= size).collect();
            let same: Vec<&'static str> = sized.iter().copied().filter(|t| type_entry(t).size == size).collect();
            let pool = if !same.is_empty() && rng.chance(2, 3) { same } else { fits };
            if !pool.is_empty() && live.len() < opts.max_live_fields {
                push(&mut reqs, &mut live, *rng.pick(&pool), rng, &mut free_names, &mut names);
            }
        }
        if live.len() < opts.max_live_fields && rng.chance(1, 2) {
            push(&mut reqs, &mut live, *rng.pick(&sized), rng, &mut free_names, &mut names);
        }
        reqs.push(Req::Close { strategy: close(rng) });
    }
    Plan { name: name.to_string(), clone, serde, table: rng.chance(1, 5), reqs }
}

pub fn gen_plan(rng: &mut Rng, name: &str, opts: &SwarmOpts) -> Plan {
    if rng.chance(1, 3) {
        return gen_gap_reuse_plan(rng, name, opts);
    }
    let n_variants = match rng.below(8) {
        0 => 1,
        1 | 2 => 2,
        3 | 4 => 3,
        _ => rng.range(1, opts.max_variants),
    };
    // per-definition type mix
    let w_plain = [0, 1, 3, 6][rng.below(4)];
    let w_tok = [0, 2, 4, 6][rng.below(4)];
    let w_heap = [0, 1, 2, 4][rng.below(4)];
    let w_zst = if opts.zst { [0, 0, 1, 3][rng.below(4)] } else { 0 };
    let weights = if w_plain + w_tok + w_heap + w_zst == 0 { [1, 1, 1, 0] } else { [w_plain, w_tok, w_heap, w_zst] };
    let uninit_pct = [0, 30, 60, 100][rng.below(4)];
    // strategy mix: mostly the default, sometimes one other, sometimes a per-variant mixture
    let strat_mode = rng.below(6);
    let fixed = *rng.pick(&[Strategy::Simple, Strategy::Basic, Strategy::Append, Strategy::AppendReverse]);
    let clone = rng.chance(2, 3);
    let serde = rng.chance(2, 3);
    // the reference model of the serde arm has no arity limit (tuples up to 16 fields, a generated struct beyond)
    let max_live = opts.max_live_fields;
    let wide = opts.max_live_fields > 16;

    let mut reqs = Vec::new();
    let mut live: Vec<usize> = Vec::new();
    let mut n_fields = 0usize;
    // names of removed fields that may be given to new fields, and the name of every field
    let mut free_names: Vec<String> = Vec::new();
    let mut names: Vec<String> = Vec::new();
    for v in 0..n_variants {
        if v > 0 && !live.is_empty() {
            let n_remove = match rng.below(5) {
                0 => 0,
                1 => live.len(),
                _ => rng.below(live.len() + 1),
            };
            for _ in 0..n_remove {
                let i = rng.below(live.len());
                let f = live.remove(i);
                free_names.push(names[f].clone());
                reqs.push(Req::Remove { field: f });
            }
        }
        let room = max_live.saturating_sub(live.len());
        let n_add = if wide {
            // wide plans: most of the room at once, so that variants beyond 16 and 32 fields occur
            if v == 0 || rng.chance(1, 2) { rng.range(room / 2, room) } else { rng.below(room.min(5) + 1) }
        } else if v == 0 {
            rng.below(room.min(8) + 1)
        } else {
            rng.below(room.min(5) + 1)
        };
        for _ in 0..n_add {
            let group = match rng.weighted(&weights) {
                0 => PLAIN,
                1 => TOKENS,
                2 => HEAP,
                _ => ZSTS,
            };
            let ty = *rng.pick(group);
            let entry = type_entry(ty);
            let uninit = entry.copy && rng.below(100) < uninit_pct;
            // sometimes under the name of a field removed earlier (in this transition or before)
            let mut name = if !free_names.is_empty() && rng.chance(1, 3) { Some(free_names.remove(rng.below(free_names.len()))) } else { None };
            if name.is_none() && rng.chance(1, 8) {
                // names the generated code also uses for its own locals, parameters and fields
                let odd = if opts.clashing_names && rng.chance(1, 2) { *rng.pick(CLASHING_NAMES) } else { *rng.pick(SAFE_ODD_NAMES) };
                if !live.iter().any(|&f| names[f] == odd) {
                    name = Some(odd.to_string());
                }
            }
            names.push(name.clone().unwrap_or_else(|| format!("f{}", n_fields)));
            reqs.push(Req::Add { ty: ty.to_string(), uninit, name, via_copy: rng.chance(1, 8) });
            live.push(n_fields);
            n_fields += 1;
        }
        let strategy = match strat_mode {
            0 | 1 | 2 => Strategy::Simple,
            3 => fixed,
            _ => *rng.pick(&[Strategy::Simple, Strategy::Simple, Strategy::Basic, Strategy::Append, Strategy::AppendReverse]),
        };
        reqs.push(Req::Close { strategy });
    }
    Plan { name: name.to_string(), clone, serde, table: rng.chance(1, 5), reqs }
}

fn add(ty: &str) -> Req {
    Req::Add { ty: ty.to_string(), uninit: false, name: None, via_copy: false }
}
fn addu(ty: &str) -> Req {
    Req::Add { ty: ty.to_string(), uninit: true, name: None, via_copy: false }
}
/// adds a field by copying a datum of another definition
fn addc(ty: &str) -> Req {
    Req::Add { ty: ty.to_string(), uninit: false, name: None, via_copy: true }
}
/// adds a field under the name of a field removed before
fn addn(ty: &str, name: &str) -> Req {
    Req::Add { ty: ty.to_string(), uninit: false, name: Some(name.to_string()), via_copy: false }
}
fn rm(field: usize) -> Req {
    Req::Remove { field }
}
fn close(strategy: Strategy) -> Req {
    Req::Close { strategy }
}

/// Directed corpus: shapes the swarm reaches rarely.
pub fn corpus() -> Vec<Plan> {
    use Strategy::*;
    let p = |name: &str, clone: bool, serde: bool, reqs: Vec<Req>| Plan { name: name.to_string(), clone, serde, table: name.ends_with("_table"), reqs };
    vec![
        // the README definition: usize (may be uninit) -> String -> isize-like
        p("readme", true, true, vec![addu("usize"), close(Simple), add("string"), rm(0), close(Simple), addu("u64"), rm(1), close(Simple)]),
        // removed and added fields forced onto the same bytes, all four strategies
        p("shared_bytes", true, true, vec![add("toka8"), add("string"), add("toka16"), close(Simple), rm(0), add("tokb8"), close(Simple), rm(1), add("vecu32"), close(Basic), rm(2), add("al16"), close(Simple)]),
        // empty first variant, removal-only variant, everything removed at the end
        p("empty_and_removals", true, true, vec![close(Simple), add("toka8"), add("u32"), add("string"), close(Simple), rm(1), close(Simple), rm(0), rm(2), close(Simple)]),
        // every field may stay uninitialised
        p("all_uninit", true, true, vec![addu("u8"), addu("u64"), addu("u8x3"), addu("al16"), close(Simple), rm(1), addu("u128"), addu("p12"), close(Simple)]),
        // odd sizes and over-alignment with gaps refilled
        p("odd_sizes", true, false, vec![add("toka3"), add("toka16"), add("u8x3"), add("toka64"), add("u16x3"), close(Simple), rm(1), rm(3), add("p12"), add("u64x3"), add("toka3"), close(Simple), rm(0), add("tokah"), add("u8"), close(Simple)]),
        // the history of DESIGN.md 1.6: a zero-size datum placed by `simple`, then `basic`
        p("zst_mixed", false, false, vec![add("u64"), add("u64x0"), add("u16"), add("toka8"), close(Basic), rm(0), add("unit"), add("u16x3"), close(Append), rm(2), add("u8"), add("u64x0"), add("u16x3"), close(Basic)]),
        // a zero-size datum placed by `simple` (listed out of address order), a later variant closed by `basic`
        p("zst_simple_then_basic", true, false, vec![add("unit"), add("toka16"), add("string"), add("u8"), close(Simple), rm(2), rm(3), add("u64x3"), addu("u8"), add("u128"), close(Simple), rm(5), rm(1), add("u8"), add("opttok"), close(Basic)]),
        // zero-size tokens with drop glue next to real data
        p("zst_tokens", true, true, vec![add("tokaz"), add("toka8"), add("tokaz"), close(Simple), rm(0), add("unit"), add("string"), close(Simple), rm(1), add("tokaz"), close(Simple)]),
        // append-only strategies over several variants
        p("append_chain", true, true, vec![add("u8"), add("toka8"), close(Append), add("u16"), rm(0), close(AppendReverse), add("string"), add("u32"), rm(1), close(Append), rm(2), add("toka16"), close(AppendReverse)]),
        // heap owners only
        p("heap_only", true, true, vec![add("string"), add("vecu32"), add("boxtok"), add("opttok"), close(Simple), rm(0), rm(2), add("string"), add("tokah"), close(Simple), rm(1), add("vecu32"), close(Simple)]),
        // single variant, single field
        p("single", true, true, vec![add("toka8"), close(Simple)]),
        // wide records (several hundred bytes): size thresholds in generated code
        p("wide", true, true, vec![add("u64x16"), add("toka64"), add("string"), add("toka8"), addu("u64x16"), add("tokah"), close(Simple), rm(1), add("toka16"), add("vecu32"), add("toka64"), close(Simple), rm(0), rm(2), add("boxtok"), addu("u64x3"), close(Simple)]),
        p("wide_tokens", true, true, vec![add("toka64"), add("toka64"), add("toka64"), add("tokb8"), close(Append), add("toka64"), add("opttok"), rm(1), close(Simple), rm(0), add("u64x16"), add("toka3"), close(Basic)]),
        // a field replaced by another one of the same name (same and different type, same and other bytes)
        p("same_name", true, true, vec![add("toka8"), add("string"), add("u32"), add("tokb8"), close(Simple), rm(0), addn("toka8", "f0"), close(Simple), rm(1), rm(3), addn("vecu32", "f1"), addn("tokb8", "f3"), close(Simple), rm(2), addn("u64", "f2"), close(Simple)]),
        // may-be-uninitialised plain data interleaved with owned data of assorted sizes and alignments
        p("interleaved", true, true, vec![addu("u64"), add("toka8"), addu("u128"), add("toka3"), addu("u32"), add("tokah"), close(Append), addu("al16"), add("toka16"), addu("u16"), add("string"), close(Append), rm(1), addu("u8"), add("boxstr"), addu("u64x3"), close(Simple)]),
        p("interleaved_small", true, true, vec![addu("u16"), add("toka3"), addu("u32"), add("toka3"), addu("u64"), close(Append), add("tokb8"), addu("u128"), rm(1), close(Append), addu("p12"), add("opttok"), close(Simple)]),
        // data copied from other definitions (copy_datum), mixed with ordinary ones
        p("copied_data", true, true, vec![add("u32"), addc("toka8"), addc("string"), close(Simple), addc("u16"), add("tokb8"), rm(0), close(Simple), addc("toka16"), rm(2), close(Simple)]),
        // built through a pre-computed type table, every other field by type name
        p("readme_table", true, true, vec![addu("usize"), add("toka8"), close(Simple), add("string"), addu("u64"), rm(0), close(Simple), addu("u32"), add("boxstr"), rm(2), close(Simple)]),
        // many fields in one variant (more than serde's tuple arity: clone only) and many variants
        p("many_fields", true, false, vec![add("u8"), add("toka8"), addu("u16"), add("string"), addu("u32"), add("toka3"), addu("u64"), add("tokb8"), add("u8x3"), add("toka16"), addu("u8"), add("vecu32"), add("u16x3"), add("tokah"), addu("u128"), add("boxtok"), add("u8"), add("opttok"), addu("p12"), add("toka8"), close(Simple), rm(3), rm(9), rm(15), add("toka64"), add("u16"), close(Simple)]),
        p("many_variants", true, true, vec![add("toka8"), addu("u32"), close(Simple), add("string"), close(Simple), rm(0), add("u16"), close(Basic), add("tokb8"), rm(1), close(Simple), rm(2), add("vecu32"), close(Append), add("u8"), rm(3), close(Simple), rm(4), add("toka3"), close(Simple), rm(5), rm(6), add("u64"), close(Simple), add("toka16"), close(AppendReverse), rm(7), add("string"), close(Basic), rm(8), addu("u16"), close(Simple)]),
        // one name given to four different fields in a row, with all four strategies
        p("same_name_again", true, true, vec![add("toka8"), add("u32"), close(Simple), rm(0), addn("string", "f0"), close(Basic), rm(2), addn("tokb8", "f0"), close(Append), rm(3), addn("u64", "f0"), add("toka3"), close(AppendReverse), rm(4), addn("vecu32", "f0"), close(Simple)]),
        // a field aligned to 32 bytes (beyond u128 and beyond what malloc guarantees)
        p("over_aligned", true, true, vec![add("u8"), add("al32"), add("toka8"), close(Simple), rm(0), addu("al32"), add("string"), close(Simple), rm(1), add("toka16"), close(Simple)]),
        // scalar kinds with invalid bit patterns, floats, a tuple with padding, nested generics, an array of tokens
        p("odd_kinds", true, true, vec![addu("bool"), add("char"), addu("f64"), add("tokarr"), addu("tup"), add("vecstr"), close(Simple), rm(1), rm(3), addu("i128"), add("tokarr"), addu("char"), close(Simple), rm(5), add("vecstr"), addu("bool"), close(Simple)]),
        // field names that are also locals / parameters / fields of the generated code
        p("odd_names", true, false, vec![Req::Add { ty: "toka8".into(), uninit: false, name: Some("this".into()), via_copy: false }, Req::Add { ty: "u32".into(), uninit: false, name: Some("value".into()), via_copy: false }, Req::Add { ty: "string".into(), uninit: false, name: Some("other".into()), via_copy: false }, close(Simple), rm(0), Req::Add { ty: "tokb8".into(), uninit: false, name: Some("result".into()), via_copy: false }, Req::Add { ty: "u16".into(), uninit: true, name: Some("size".into()), via_copy: false }, close(Simple), rm(1), rm(2), rm(3), Req::Add { ty: "vecu32".into(), uninit: false, name: Some("source".into()), via_copy: false }, close(Simple)]),
        // more than 16 fields alive, then a variant that removes most of them
        p("many_fields_shrink", true, false, vec![add("toka8"), addu("u32"), add("string"), addu("u64"), add("toka3"), addu("u16"), add("tokb8"), addu("u8"), add("vecu32"), addu("u128"), add("toka16"), addu("p12"), add("boxtok"), addu("u8x3"), add("tokah"), addu("al16"), add("opttok"), addu("f64"), close(Simple), rm(0), rm(2), rm(4), rm(5), rm(6), rm(7), rm(8), rm(10), rm(11), rm(12), rm(13), rm(14), rm(15), rm(16), rm(17), add("toka8"), addu("u16"), close(Simple)]),
        // a field comes back under its old name and type after part of its old slot went to another field
        p("readd_same_slot", true, true, vec![add("u64"), addn("u64", "score"), close(Simple), rm(1), close(Simple), add("u32"), add("toka3"), close(Simple), rm(2), close(Simple), addn("u64", "score"), close(Simple), rm(4), addn("u64", "score"), close(Simple)]),
        // more fields than serde's own tuple impls reach (16), with the serde fragment: 18, then 17, then 19
        p("many_fields_serde", true, true, vec![add("u8"), add("toka8"), addu("u16"), add("string"), add("u32"), add("toka3"), add("u64"), add("tokb8"), add("u8x3"), add("toka16"), add("bool"), add("vecu32"), add("u16x3"), add("tokah"), add("u128"), add("boxstr"), add("char"), add("opttok"), close(Simple), rm(3), rm(9), add("toka64"), close(Simple), add("u16"), add("vecstr"), close(Simple)]),
        // zero-size only
        p("zst_only", true, true, vec![add("unit"), add("tokaz"), close(Simple), add("u64x0"), rm(0), close(Simple)]),
    ]
}

/// The definitions of one simulator build: the directed corpus followed by `n_swarm` drawn plans.
pub fn definition_set(seed: u64, n_swarm: usize, with_corpus: bool, opts: &SwarmOpts) -> Vec<Plan> {
    let mut plans = Vec::new();
    if with_corpus {
        plans.extend(corpus());
    }
    for i in 0..n_swarm {
        let mut rng = Rng::new(simrt::rng::derive(seed, 0xdef, i as u64));
        // one plan in twelve of the record simulator's swarm is wide: up to 36 live fields, few variants
        let wide = SwarmOpts { max_variants: 4, max_live_fields: 36, ..*opts };
        let opts = if opts.max_live_fields >= 10 && i % 12 == 11 { &wide } else { opts };
        plans.push(gen_plan(&mut rng, &format!("swarm_{:03}", i), opts));
    }
    plans
}

/// Offsets as text, for evidence and SIM-D.
pub fn layout_table(built: &Built) -> String {
    let mut s = String::new();
    for v in built.definition.variants() {
        let _ = write!(s, "v{}:", v.id());
        for d in v.data_sorted() {
            let datum = &built.definition[d];
            let _ = write!(s, " {}@{}+{}/{}", datum.name(), datum.details().offset(), datum.details().size(), datum.details().type_align());
        }
        s.push('\n');
    }
    let _ = writeln!(s, "max_size={} align={}", built.definition.max_size(), built.definition.max_type_align());
    s
}
