//! SIM-F: stale type information as an injected fault. A definition is rebuilt with the type
//! information of one datum perturbed (or with the may-be-uninit flag set on a non-Copy type),
//! through the explicit override entry point or through an edited pre-computed JSON type table.

use crate::{add_typed_override, build, catalogue_table, generator_config, type_entry, Plan, Req, Strategy};
use serde::{Deserialize, Serialize};
use std::collections::BTreeMap;
use truc::record::definition::builder::native::variant::{append_data, append_data_reverse, basic, simple};
use truc::record::definition::builder::native::{DatumDefinitionOverride, NativeRecordDefinitionBuilder};
use truc::record::definition::{DatumId, NativeDatumDetails, RecordDefinition};
use truc::record::type_resolver::{DynamicTypeInfo, HostTypeResolver, StaticTypeResolver, TypeResolver};

#[derive(Serialize, Deserialize, Clone, Copy, Debug, PartialEq, Eq)]
pub enum Perturb {
    None,
    SizeMinus1,
    SizePlus1,
    SizeTimes2,
    AlignHalf,
    AlignTimes2,
    UninitNonCopy,
}

#[derive(Serialize, Deserialize, Clone, Copy, Debug, PartialEq, Eq)]
pub enum Entry {
    /// `add_datum_override`
    Override,
    /// edited JSON table read back into a `StaticTypeResolver`, data added with `add_dynamic_datum`
    Json,
}

pub const LAYOUT_PERTURBATIONS: [Perturb; 5] = [Perturb::SizeMinus1, Perturb::SizePlus1, Perturb::SizeTimes2, Perturb::AlignHalf, Perturb::AlignTimes2];

/// (size, align, allow_uninit) after the perturbation, or None if it changes nothing / is not expressible
pub fn perturbed(size: usize, align: usize, copy: bool, p: Perturb) -> Option<(usize, usize, bool)> {
    match p {
        Perturb::None => Some((size, align, copy)),
        Perturb::SizeMinus1 => (size > 0).then(|| (size - 1, align, copy)),
        Perturb::SizePlus1 => Some((size + 1, align, copy)),
        Perturb::SizeTimes2 => (size > 0).then(|| (size * 2, align, copy)),
        Perturb::AlignHalf => (align > 1).then(|| (size, align / 2, copy)),
        Perturb::AlignTimes2 => Some((size, align * 2, copy)),
        Perturb::UninitNonCopy => (!copy).then(|| (size, align, true)),
    }
}

fn close<R: TypeResolver>(b: &mut NativeRecordDefinitionBuilder<R>, s: Strategy) {
    match s {
        Strategy::Simple => b.close_record_variant_with(simple),
        Strategy::Basic => b.close_record_variant_with(basic),
        Strategy::Append => b.close_record_variant_with(append_data),
        Strategy::AppendReverse => b.close_record_variant_with(append_data_reverse),
    };
}

/// Rebuilds `plan` with the type information of field `target` perturbed.
pub fn build_stale(plan: &Plan, target: usize, p: Perturb, entry: Entry) -> Result<RecordDefinition<NativeDatumDetails>, String> {
    let clean = build(plan)?;
    let names: Vec<String> = clean.definition.datum_definitions().map(|d| d.details().type_name().to_string()).collect();
    let mut ids: Vec<DatumId> = Vec::new();
    match entry {
        Entry::Override => {
            let mut b = NativeRecordDefinitionBuilder::new(HostTypeResolver);
            for req in &plan.reqs {
                match req {
                    Req::Add { ty, uninit, .. } => {
                        let i = ids.len();
                        let e = type_entry(ty);
                        let o = if i == target {
                            let (size, align, un) = perturbed(e.size, e.align, *uninit, p).ok_or("perturbation not applicable")?;
                            DatumDefinitionOverride { type_name: None, size: Some(size), align: Some(align), allow_uninit: Some(un) }
                        } else {
                            DatumDefinitionOverride { type_name: None, size: None, align: None, allow_uninit: Some(*uninit) }
                        };
                        ids.push(add_typed_override(&mut b, ty, &format!("f{}", i), o)?);
                    }
                    Req::Remove { field } => b.remove_datum(ids[*field])?,
                    Req::Close { strategy } => close(&mut b, *strategy),
                }
            }
            Ok(b.build())
        }
        Entry::Json => {
            // the table as produced on the "target", then gone stale
            let table = catalogue_table();
            let json = table.to_json_string().map_err(|e| e.to_string())?;
            let mut map: BTreeMap<String, DynamicTypeInfo> = serde_json::from_str(&json).map_err(|e| e.to_string())?;
            // may-be-uninit flags of Copy types, as `add_type_allow_uninit` would have recorded them
            let mut target_name = None;
            let mut idx = 0usize;
            for req in &plan.reqs {
                if let Req::Add { ty, .. } = req {
                    let e = type_entry(ty);
                    let info = map.get_mut(&names[idx]).ok_or_else(|| format!("type {} not in table", names[idx]))?;
                    info.allow_uninit = e.copy;
                    if idx == target {
                        target_name = Some((names[idx].clone(), e));
                    }
                    idx += 1;
                }
            }
            let (tname, e) = target_name.ok_or("target out of range")?;
            {
                let info = map.get_mut(&tname).unwrap();
                let (size, align, un) = perturbed(e.size, e.align, e.copy, p).ok_or("perturbation not applicable")?;
                info.info.size = size;
                info.info.align = align;
                info.allow_uninit = un;
            }
            // through the serialised form, as a build script reads it back
            let stale_json = serde_json::to_string(&map).map_err(|e| e.to_string())?;
            let map: BTreeMap<String, DynamicTypeInfo> = serde_json::from_str(&stale_json).map_err(|e| e.to_string())?;
            let resolver = StaticTypeResolver::from(map);
            let mut b = NativeRecordDefinitionBuilder::new(&resolver);
            let mut i = 0usize;
            for req in &plan.reqs {
                match req {
                    Req::Add { .. } => {
                        ids.push(b.add_dynamic_datum(format!("f{}", i), &names[i])?);
                        i += 1;
                    }
                    Req::Remove { field } => b.remove_datum(ids[*field])?,
                    Req::Close { strategy } => close(&mut b, *strategy),
                }
            }
            Ok(b.build())
        }
    }
}

pub fn generate_stale(plan: &Plan, def: &RecordDefinition<NativeDatumDetails>) -> String {
    truc::generator::generate(def, &generator_config(plan))
}
