//! SIM-D worker: replays seeded builder histories and prints, per history, hashes of the offset
//! table, the Display text and the generated code, obtained twice in this process (the second
//! time on a fresh thread, after perturbing the heap).
//!
//! usage: simd run <seed> <start> <count> [--threads n] [--heap k]
//!        simd dump <seed> <index>          (plan, layout, display, generated code in full)

use simgen::*;
use simrt::rng::Rng;
use std::fmt::Write as _;

fn fnv(s: &str) -> u64 {
    let mut h = simrt::FNV_INIT;
    simrt::fold_str(&mut h, s);
    h
}

fn plan_of(seed: u64, index: u64) -> Plan {
    let mut rng = Rng::new(simrt::rng::derive(seed, 0xd19, index));
    // fragment selection is part of the drawn history (clone / serde flags of the plan)
    // one history in twelve is wide (up to 36 live fields)
    let (max_variants, max_live_fields) = if index % 12 == 11 { (4, 36) } else { (6, 12) };
    gen_plan(&mut rng, &format!("h{}", index), &SwarmOpts { max_variants, max_live_fields, zst: true, clashing_names: true })
}

/// (layout table, display text or "<display panicked>", generated code or "<generate panicked>")
fn outputs(plan: &Plan) -> (String, String, String) {
    let built = match std::panic::catch_unwind(|| build(plan)) {
        Ok(Ok(b)) => b,
        _ => return ("<build failed>".into(), String::new(), String::new()),
    };
    let layout = layout_table(&built);
    let display = std::panic::catch_unwind(std::panic::AssertUnwindSafe(|| built.definition.to_string())).unwrap_or_else(|_| "<display panicked>".into());
    let generated = std::panic::catch_unwind(std::panic::AssertUnwindSafe(|| generate_module(&built))).unwrap_or_else(|_| "<generate panicked>".into());
    (layout, display, generated)
}

fn main() {
    std::panic::set_hook(Box::new(|_| {}));
    let args: Vec<String> = std::env::args().collect();
    let arg = |name: &str| args.iter().position(|a| a == name).and_then(|i| args.get(i + 1)).cloned();
    match args[1].as_str() {
        "run" => {
            let seed: u64 = args[2].parse().unwrap();
            let start: u64 = args[3].parse().unwrap();
            let count: u64 = args[4].parse().unwrap();
            let threads: usize = arg("--threads").and_then(|s| s.parse().ok()).unwrap_or(1);
            let heap: usize = arg("--heap").and_then(|s| s.parse().ok()).unwrap_or(0);
            // ambient perturbation: leaked allocations of odd sizes shift every later heap address
            let mut rng = Rng::new(heap as u64 ^ 0x9e3779b9);
            for _ in 0..heap {
                let v: Vec<u8> = Vec::with_capacity(rng.range(1, 5000));
                std::mem::forget(v);
            }
            let indices: Vec<u64> = (start..start + count).collect();
            // the histories are dealt out to `threads` threads; results are printed in index order
            let chunks: Vec<Vec<u64>> = (0..threads).map(|t| indices.iter().copied().filter(|i| (*i as usize) % threads == t).collect()).collect();
            let mut handles = Vec::new();
            for chunk in chunks {
                handles.push(std::thread::spawn(move || {
                    let mut lines = Vec::new();
                    for i in chunk {
                        let plan = plan_of(seed, i);
                        let a = outputs(&plan);
                        // second generation in the same process: fresh thread, perturbed heap, new hasher keys
                        let plan2 = plan.clone();
                        let b = std::thread::spawn(move || {
                            let junk: Vec<Vec<u8>> = (0..(i % 7) as usize).map(|k| Vec::with_capacity(17 * (k + 1))).collect();
                            let o = outputs(&plan2);
                            drop(junk);
                            o
                        })
                        .join()
                        .unwrap();
                        let same = a == b;
                        let mut l = String::new();
                        let _ = write!(l, "{} {:016x} {:016x} {:016x} {}", i, fnv(&a.0), fnv(&a.1), fnv(&a.2), if same { "same" } else { "DIFFERENT-IN-PROCESS" });
                        lines.push((i, l, a.2.len()));
                    }
                    lines
                }));
            }
            let mut all: Vec<(u64, String, usize)> = handles.into_iter().flat_map(|h| h.join().unwrap()).collect();
            all.sort();
            for (_, l, _) in &all {
                println!("{}", l);
            }
        }
        "dump" => {
            let seed: u64 = args[2].parse().unwrap();
            let index: u64 = args[3].parse().unwrap();
            let plan = plan_of(seed, index);
            let (layout, display, generated) = outputs(&plan);
            println!("PLAN {}", serde_json::to_string(&plan).unwrap());
            println!("LAYOUT\n{}", layout);
            println!("DISPLAY\n{}", display);
            println!("GENERATED\n{}", generated);
        }
        _ => std::process::exit(2),
    }
}
