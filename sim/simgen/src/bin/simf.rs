//! SIM-F probe emitter: writes one Rust source per (definition, datum, perturbation, entry point)
//! plus the unperturbed controls, and a manifest telling the driver what rustc must say.
//!
//! usage: simf <out-dir> <seed> <n-swarm> [corpus]

use serde::Serialize;
use simgen::stale::*;
use simgen::{build, definition_set, type_entry, Plan, Req, SwarmOpts};
use std::fs;
use std::path::Path;

#[derive(Serialize)]
struct Probe {
    file: String,
    definition: String,
    datum: Option<usize>,
    datum_type: Option<String>,
    introduced_in_variant: Option<usize>,
    perturbation: Perturb,
    entry: Entry,
    /// "compile" or "reject-layout" or "reject-copy"
    expect: &'static str,
    recorded: Option<(usize, usize, bool)>,
    real: Option<(usize, usize, bool)>,
}

fn wrap(generated: &str) -> String {
    format!(
        "#![allow(dead_code, unused_imports, unused_variables, unused_mut, clippy::all)]\n#[macro_use]\nextern crate static_assertions;\nextern crate truc_runtime;\nextern crate simrt;\npub mod m {{\n{}\n}}\n",
        generated
    )
}

fn variant_of_field(plan: &Plan, field: usize) -> usize {
    let mut v = 0;
    let mut i = 0;
    for r in &plan.reqs {
        match r {
            Req::Add { .. } => {
                if i == field {
                    return v;
                }
                i += 1;
            }
            Req::Close { .. } => v += 1,
            _ => {}
        }
    }
    v
}

fn main() {
    let args: Vec<String> = std::env::args().collect();
    let out = Path::new(&args[1]);
    if args[2] == "--plan" {
        // replay of one recorded probe: simf <out> --plan <plan.json> <field> <perturbation> <entry>
        fs::create_dir_all(out).unwrap();
        let plan: Plan = serde_json::from_str(&fs::read_to_string(&args[3]).unwrap()).unwrap();
        let field: usize = args[4].parse().unwrap();
        let p: Perturb = serde_json::from_str(&format!("{:?}", args[5])).unwrap();
        let entry: Entry = serde_json::from_str(&format!("{:?}", args[6])).unwrap();
        let built = build(&plan).unwrap();
        fs::write(out.join("control.rs"), wrap(&simgen::generate_module(&built))).unwrap();
        let def = build_stale(&plan, field, p, entry).unwrap();
        fs::write(out.join("probe.rs"), wrap(&generate_stale(&plan, &def))).unwrap();
        return;
    }
    let seed: u64 = args[2].parse().unwrap();
    let n_swarm: usize = args[3].parse().unwrap();
    let corpus = args.get(4).map(|s| s == "corpus").unwrap_or(false);
    fs::create_dir_all(out).unwrap();
    let opts = SwarmOpts { max_variants: 4, max_live_fields: 6, zst: true, clashing_names: false };
    let mut plans = definition_set(seed ^ 0xf11, n_swarm, corpus, &opts);
    for p in plans.iter_mut() {
        // fragments that need further crates are left out of the probes
        p.serde = false;
    }
    let mut probes: Vec<Probe> = Vec::new();
    let mut failures: Vec<String> = Vec::new();
    for (pi, plan) in plans.iter().enumerate() {
        let built = match std::panic::catch_unwind(|| build(plan)) {
            Ok(Ok(b)) => b,
            _ => {
                failures.push(format!("{}: builder failed", plan.name));
                continue;
            }
        };
        let control = match std::panic::catch_unwind(std::panic::AssertUnwindSafe(|| simgen::generate_module(&built))) {
            Ok(g) => g,
            Err(_) => {
                failures.push(format!("{}: generator panicked", plan.name));
                continue;
            }
        };
        let file = format!("p{:03}_control.rs", pi);
        fs::write(out.join(&file), wrap(&control)).unwrap();
        probes.push(Probe { file, definition: plan.name.clone(), datum: None, datum_type: None, introduced_in_variant: None, perturbation: Perturb::None, entry: Entry::Override, expect: "compile", recorded: None, real: None });
        // the JSON entry point without perturbation is a control of its own
        for entry in [Entry::Json] {
            if let Ok(Ok(def)) = std::panic::catch_unwind(|| build_stale(plan, 0, Perturb::None, entry)) {
                if let Ok(g) = std::panic::catch_unwind(std::panic::AssertUnwindSafe(|| generate_stale(plan, &def))) {
                    let file = format!("p{:03}_control_json.rs", pi);
                    fs::write(out.join(&file), wrap(&g)).unwrap();
                    probes.push(Probe { file, definition: plan.name.clone(), datum: None, datum_type: None, introduced_in_variant: None, perturbation: Perturb::None, entry, expect: "compile", recorded: None, real: None });
                }
            }
        }
        let n_fields = built.keys.len();
        for field in 0..n_fields {
            let e = type_entry(&built.keys[field]);
            let uninit_flag = match plan.reqs.iter().filter(|r| matches!(r, Req::Add { .. })).nth(field) {
                Some(Req::Add { uninit, .. }) => *uninit,
                _ => false,
            };
            let mut kinds: Vec<Perturb> = LAYOUT_PERTURBATIONS.to_vec();
            kinds.push(Perturb::UninitNonCopy);
            for p in kinds {
                for entry in [Entry::Override, Entry::Json] {
                    let base_uninit = if entry == Entry::Json { e.copy } else { uninit_flag };
                    let Some(rec) = perturbed(e.size, e.align, base_uninit, p) else { continue };
                    if p == Perturb::UninitNonCopy && e.copy {
                        continue;
                    }
                    let def = match std::panic::catch_unwind(|| build_stale(plan, field, p, entry)) {
                        Ok(Ok(d)) => d,
                        _ => {
                            failures.push(format!("{}: stale build failed ({:?} {:?} f{})", plan.name, p, entry, field));
                            continue;
                        }
                    };
                    let g = match std::panic::catch_unwind(std::panic::AssertUnwindSafe(|| generate_stale(plan, &def))) {
                        Ok(g) => g,
                        Err(_) => {
                            failures.push(format!("{}: stale generation panicked ({:?} {:?} f{})", plan.name, p, entry, field));
                            continue;
                        }
                    };
                    let file = format!("p{:03}_f{}_{:?}_{:?}.rs", pi, field, p, entry);
                    fs::write(out.join(&file), wrap(&g)).unwrap();
                    probes.push(Probe {
                        file,
                        definition: plan.name.clone(),
                        datum: Some(field),
                        datum_type: Some(e.path.to_string()),
                        introduced_in_variant: Some(variant_of_field(plan, field)),
                        perturbation: p,
                        entry,
                        expect: if p == Perturb::UninitNonCopy { "reject-copy" } else { "reject-layout" },
                        recorded: Some(rec),
                        real: Some((e.size, e.align, e.copy)),
                    });
                }
            }
        }
    }
    let manifest = serde_json::json!({"probes": probes, "pipeline_failures": failures, "plans": plans});
    fs::write(out.join("manifest.json"), serde_json::to_string(&manifest).unwrap()).unwrap();
    println!("{} probes, {} pipeline failures", manifest["probes"].as_array().unwrap().len(), failures.len());
}
