//! Prints plan and layout of swarm definition <index> of <seed>. usage: simplan <seed> <index>
use simgen::*;
fn main() {
    let args: Vec<String> = std::env::args().collect();
    let seed: u64 = args[1].parse().unwrap();
    let i: usize = args[2].parse().unwrap();
    let plans = definition_set(seed, i + 1, false, &SwarmOpts::default());
    let p = &plans[i];
    println!("{}", serde_json::to_string(p).unwrap());
    let b = build(p).unwrap();
    println!("{}", layout_table(&b));
}
