//! Tuning aid (not a check): how many of the first N swarm definitions have overlapping data or
//! data listed out of address order. usage: simscan <seed> <n>
use simgen::*;
fn main() {
    let args: Vec<String> = std::env::args().collect();
    let seed: u64 = args[1].parse().unwrap();
    let n: usize = args[2].parse().unwrap();
    let plans = definition_set(seed, n, false, &SwarmOpts::default());
    let (mut overlap, mut failed, mut first) = (0, 0, None);
    for (i, p) in plans.iter().enumerate() {
        let b = match std::panic::catch_unwind(|| build(p)) {
            Ok(Ok(b)) => b,
            _ => {
                failed += 1;
                continue;
            }
        };
        let mut bad = false;
        for v in b.definition.variants() {
            let ds: Vec<_> = v.data().map(|d| &b.definition[d]).filter(|d| d.details().size() > 0).collect();
            for x in 0..ds.len() {
                for y in x + 1..ds.len() {
                    let (a, c) = (ds[x].details(), ds[y].details());
                    if a.offset() < c.offset() + c.size() && c.offset() < a.offset() + a.size() {
                        bad = true;
                    }
                }
            }
        }
        if bad {
            overlap += 1;
            if first.is_none() {
                first = Some(i);
            }
        }
    }
    println!("definitions={} overlapping={} builder_failures={} first_overlapping_index={:?}", n, overlap, failed, first);
}
