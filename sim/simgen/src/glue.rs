//! Emits the glue module of one definition: an implementation of `simrt::rec::Rec` that drives the
//! generated API. Only names, types, variant membership and may-be-uninit flags are used.

use crate::{type_entry, Built};
use std::fmt::Write as _;

struct F {
    datum: usize,
    name: String,
    /// type as the glue spells it
    ty: String,
    uninit_ok: bool,
}

/// Field names of a generated struct, read from the generated text. The glue must keep compiling when the
/// generated interface lacks a field the definition calls for (that is a verdict for the engine, which
/// then sees a removed value that is not handed back or an added field that is never supplied, not a
/// reason to discard the definition).
fn struct_fields(generated: &str, struct_name: &str) -> Option<Vec<String>> {
    let mut lines = generated.lines();
    let head = format!("pub struct {}", struct_name);
    loop {
        let l = lines.next()?;
        let t = l.trim_start();
        if t.starts_with(&head) && t[head.len()..].starts_with(|c: char| c == ' ' || c == '<' || c == '{' || c == ';') {
            if t.ends_with(';') {
                return Some(vec![]);
            }
            break;
        }
    }
    let mut out = Vec::new();
    for l in lines {
        let t = l.trim();
        if t.starts_with('}') {
            break;
        }
        if let Some(rest) = t.strip_prefix("pub ") {
            if let Some((name, _)) = rest.split_once(':') {
                out.push(name.trim().to_string());
            }
        }
    }
    Some(out)
}

pub fn emit(built: &Built, generated: &str) -> String {
    let def = &built.definition;
    let plan = &built.plan;
    let variants: Vec<Vec<F>> = def
        .variants()
        .map(|v| {
            v.data_sorted()
                .map(|d| {
                    let datum = &def[d];
                    let id: usize = format!("{}", datum.id()).parse().unwrap();
                    F { datum: id, name: datum.name().to_string(), ty: type_entry(&built.keys[id]).path.to_string(), uninit_ok: datum.details().allow_uninit() }
                })
                .collect()
        })
        .collect();
    let nv = variants.len();
    let mut s = String::new();
    let w = &mut s;
    macro_rules! l {
        ($($arg:tt)*) => {{ let _ = writeln!(w, $($arg)*); }};
    }
    l!("#![allow(unused_variables, unused_mut, unused_imports, unreachable_patterns, unreachable_code, dead_code, dropping_copy_types, clippy::all)]");
    l!("use super::gen::*;");
    l!("use simrt::rec::*;");
    l!("use simrt::tok::{{Obs, Val}};");
    l!("use std::io::{{Read, Write}};");
    l!("");
    // ---- metadata
    let n_data = built.keys.len();
    l!("pub static DATA: [FieldMeta; {}] = [", n_data);
    for (id, key) in built.keys.iter().enumerate() {
        let e = type_entry(key);
        let datum = def.datum_definitions().nth(id).unwrap();
        l!(
            "    FieldMeta {{ datum: {}, name: {:?}, ty: {:?}, key: {:?}, uninit_ok: {}, tracked: {}, instances: <{} as Val>::INSTANCES, zst: {}, counted_class: {}, size: {}, align: {}, offset: {}, norm: <{} as Val>::norm }},",
            id,
            datum.name(),
            datum.details().type_name(),
            key,
            datum.details().allow_uninit(),
            e.tracked,
            e.path,
            e.zst,
            e.counted_class,
            datum.details().size(),
            datum.details().type_align(),
            datum.details().offset(),
            e.path
        );
    }
    l!("];");
    l!("pub static VARIANTS: [VariantMeta; {}] = [", nv);
    for (vi, fields) in variants.iter().enumerate() {
        let ids: Vec<usize> = fields.iter().map(|f| f.datum).collect();
        let prev: Vec<usize> = if vi > 0 { variants[vi - 1].iter().map(|f| f.datum).collect() } else { vec![] };
        let plus: Vec<usize> = ids.iter().copied().filter(|d| !prev.contains(d)).collect();
        let minus: Vec<usize> = prev.iter().copied().filter(|d| !ids.contains(d)).collect();
        l!("    VariantMeta {{ fields: &{:?}, plus: &{:?}, minus: &{:?} }},", ids, plus, minus);
    }
    l!("];");
    l!(
        "pub static META: DefMeta = DefMeta {{ name: {:?}, data: &DATA, variants: &VARIANTS, has_clone: {}, has_serde: {}, max_size: MAX_SIZE, align: {}, plan_json: {:?} }};",
        plan.name,
        plan.clone,
        plan.serde,
        def.max_type_align(),
        serde_json::to_string(plan).unwrap()
    );
    l!("");
    l!("pub enum R<const CAP: usize> {{");
    for vi in 0..nv {
        l!("    V{}(CappedRecord{}<CAP>),", vi, vi);
    }
    l!("}}");
    l!("");
    l!("impl<const CAP: usize> Rec for R<CAP> {{");
    l!("    const CAP: usize = CAP;");
    l!("    fn meta() -> &'static DefMeta {{ &META }}");
    l!("    fn layouts() -> Vec<(usize, usize)> {{ vec![{}] }}", (0..nv).map(|vi| format!("(std::mem::size_of::<CappedRecord{0}<CAP>>(), std::mem::align_of::<CappedRecord{0}<CAP>>())", vi)).collect::<Vec<_>>().join(", "));
    l!("    fn variant(&self) -> usize {{ match self {{ {} }} }}", (0..nv).map(|vi| format!("R::V{}(_) => {}", vi, vi)).collect::<Vec<_>>().join(", "));

    // ---- constructors
    l!("    fn alias_layouts() -> Vec<(usize, usize)> {{ vec![{}] }}", (0..nv).map(|vi| format!("(std::mem::size_of::<Record{0}>(), std::mem::align_of::<Record{0}>())", vi)).collect::<Vec<_>>().join(", "));
    for (fname, uninit) in [("new_full", false), ("new_uninit", true)] {
        l!("    fn {}(v: usize, src: &mut Src, via_from: bool) -> Self {{", fname);
        l!("        match v {{");
        for (vi, fields) in variants.iter().enumerate() {
            l!("            {} => {{", vi);
            let mut names = Vec::new();
            for f in fields.iter().filter(|f| !(uninit && f.uninit_ok)) {
                l!("                let {}: {} = src.make({});", f.name, f.ty, f.datum);
                names.push(f.name.clone());
            }
            let (unpacked, ctor) = if uninit { (format!("UnpackedUninitRecord{}", vi), "new_uninit") } else { (format!("UnpackedRecord{}", vi), "new") };
            l!("                let unpacked = {} {{ {} }};", unpacked, names.join(", "));
            l!("                R::V{}(if via_from {{ CappedRecord{}::<CAP>::from(unpacked) }} else {{ CappedRecord{}::<CAP>::{}(unpacked) }})", vi, vi, vi, ctor);
            l!("            }}");
        }
        l!("            _ => unreachable!(),");
        l!("        }}");
        l!("    }}");
    }

    // ---- observation
    for (fname, selfty, acc_suffix) in [("observe", "&self", ""), ("observe_mut", "&mut self", "_mut")] {
        l!("    fn {}({}, skip: &[bool], out: &mut ObsList) {{", fname, selfty);
        l!("        match self {{");
        for (vi, fields) in variants.iter().enumerate() {
            l!("            R::V{}(r) => {{", vi);
            for f in fields {
                l!("                if !skip[{}] {{ let o = r.{}{}().obs(); simrt::alloc::harness(|| out.push((0, {}, o))); }}", f.datum, f.name, acc_suffix, f.datum);
            }
            l!("            }}");
        }
        l!("        }}");
        l!("    }}");
    }
    l!("    fn addrs(&self, out: &mut Vec<AddrObs>) {{");
    l!("        match self {{");
    for (vi, fields) in variants.iter().enumerate() {
        l!("            R::V{}(r) => {{", vi);
        l!("                let base = r as *const CappedRecord{}<CAP> as usize;", vi);
        l!("                let rec_size = std::mem::size_of::<CappedRecord{}<CAP>>();", vi);
        l!("                let rec_align = std::mem::align_of::<CappedRecord{}<CAP>>();", vi);
        for f in fields {
            l!(
                "                {{ let a = AddrObs {{ datum: {}, addr: std::hint::black_box(r.{}() as *const {}) as usize, align: std::mem::align_of::<{}>(), size: std::mem::size_of::<{}>(), base, rec_size, rec_align }}; simrt::alloc::harness(|| out.push(a)); }}",
                f.datum, f.name, f.ty, f.ty, f.ty
            );
        }
        l!("            }}");
    }
    l!("        }}");
    l!("    }}");

    // ---- writes
    l!("    fn set(&mut self, datum: usize, src: &mut Src) {{");
    l!("        match (self, datum) {{");
    for (vi, fields) in variants.iter().enumerate() {
        for f in fields {
            l!("            (R::V{}(r), {}) => {{ let v: {} = src.make({}); *r.{}_mut() = v; }}", vi, f.datum, f.ty, f.datum, f.name);
        }
    }
    l!("            _ => unreachable!(),");
    l!("        }}");
    l!("    }}");
    l!("    fn mutate(&mut self, datum: usize, pay: u64) -> Obs {{");
    l!("        match (self, datum) {{");
    for (vi, fields) in variants.iter().enumerate() {
        for f in fields {
            l!("            (R::V{}(r), {}) => {{ let f = r.{}_mut(); f.set_pay(pay); f.obs() }}", vi, f.datum, f.name);
        }
    }
    l!("            _ => unreachable!(),");
    l!("        }}");
    l!("    }}");

    // ---- unpack
    l!("    fn unpack(self, skip: &[bool], out: &mut ObsList) {{");
    l!("        match self {{");
    for (vi, fields) in variants.iter().enumerate() {
        l!("            R::V{}(r) => {{", vi);
        l!("                let u = r.unpack();");
        for f in fields {
            l!("                if !skip[{}] {{ let o = u.{}.obs(); simrt::alloc::harness(|| out.push((0, {}, o))); }}", f.datum, f.name, f.datum);
        }
        l!("                drop(u);");
        l!("            }}");
    }
    l!("        }}");
    l!("    }}");

    // ---- conversion to the next variant
    l!("    fn convert(self, form: Form, src: &mut Src, skip: &[bool], removed: &mut ObsList) -> Self {{");
    l!("        match self {{");
    for vi in 0..nv {
        if vi + 1 >= nv {
            l!("            R::V{}(_) => unreachable!(\"no next variant\"),", vi);
            continue;
        }
        let next = vi + 1;
        let prev_ids: Vec<usize> = variants[vi].iter().map(|f| f.datum).collect();
        let next_ids: Vec<usize> = variants[next].iter().map(|f| f.datum).collect();
        let plus: Vec<&F> = variants[next].iter().filter(|f| !prev_ids.contains(&f.datum)).collect();
        let minus: Vec<&F> = variants[vi].iter().filter(|f| !next_ids.contains(&f.datum)).collect();
        l!("            R::V{}(r) => match form {{", vi);
        for (form, uninit, out) in [("Full", false, false), ("Uninit", true, false), ("FullOut", false, true), ("UninitOut", true, true)] {
            l!("                Form::{} => {{", form);
            let mut names = Vec::new();
            let in_name = if uninit { format!("UnpackedUninitRecordIn{}", next) } else { format!("UnpackedRecordIn{}", next) };
            let in_fields = struct_fields(generated, &in_name);
            for f in plus.iter().filter(|f| !(uninit && f.uninit_ok)) {
                // a field the generated container does not offer cannot be supplied (the engine reports it)
                if in_fields.as_ref().map_or(false, |fs| !fs.contains(&f.name)) {
                    continue;
                }
                l!("                    let {}: {} = src.make({});", f.name, f.ty, f.datum);
                names.push(f.name.clone());
            }
            l!("                    let plus = {} {{ {} }};", in_name, names.join(", "));
            let out_fields = struct_fields(generated, &format!("Record{}AndUnpackedOut", next));
            // removed fields the generated result really hands back (the engine reports the others)
            let minus: Vec<&&F> = minus.iter().filter(|f| out_fields.as_ref().map_or(true, |fs| fs.contains(&f.name))).collect();
            if out {
                l!("                    let o = Record{}AndUnpackedOut::<CAP>::from((r, plus));", next);
                l!("                    let Record{}AndUnpackedOut {{ record{}, .. }} = o;", next, minus.iter().map(|f| format!(", {}", f.name)).collect::<String>());
                for f in &minus {
                    l!("                    if !skip[{}] {{ let ob = {}.obs(); simrt::alloc::harness(|| removed.push((src.tag, {}, ob))); }}", f.datum, f.name, f.datum);
                }
                for f in &minus {
                    l!("                    drop({});", f.name);
                }
                l!("                    R::V{}(record)", next);
            } else {
                l!("                    R::V{}(CappedRecord{}::<CAP>::from((r, plus)))", next, next);
            }
            l!("                }}");
        }
        l!("            }},");
    }
    l!("        }}");
    l!("    }}");

    // ---- clone
    l!("    fn clone_rec(&self) -> Self {{");
    if plan.clone {
        l!("        match self {{ {} }}", (0..nv).map(|vi| format!("R::V{0}(r) => R::V{0}(r.clone())", vi)).collect::<Vec<_>>().join(", "));
    } else {
        l!("        unreachable!(\"clone fragment not generated\")");
    }
    l!("    }}");
    l!("    fn clone_from_rec(&mut self, source: &Self) {{");
    if plan.clone {
        l!("        match (self, source) {{ {}, _ => unreachable!() }}", (0..nv).map(|vi| format!("(R::V{0}(a), R::V{0}(b)) => a.clone_from(b)", vi)).collect::<Vec<_>>().join(", "));
    } else {
        l!("        unreachable!(\"clone fragment not generated\")");
    }
    l!("    }}");

    // ---- serde
    let tuple_refs = |fields: &Vec<F>| -> String {
        if fields.is_empty() {
            "&[0u8; 0]".to_string()
        } else {
            format!("&({},)", fields.iter().map(|f| format!("r.{}()", f.name)).collect::<Vec<_>>().join(", "))
        }
    };
    l!("    fn encode(&self, fmt: Fmt, w: &mut dyn Write) -> Result<(), String> {{");
    if plan.serde {
        l!("        match self {{ {} }}", (0..nv).map(|vi| format!("R::V{}(r) => enc(fmt, w, r)", vi)).collect::<Vec<_>>().join(", "));
    } else {
        l!("        unreachable!(\"serde fragment not generated\")");
    }
    l!("    }}");
    l!("    fn encode_model(&self, fmt: Fmt, w: &mut dyn Write) -> Result<(), String> {{");
    if plan.serde {
        l!("        match self {{");
        for (vi, fields) in variants.iter().enumerate() {
            if fields.len() > 16 {
                l!("            R::V{}(r) => {{", vi);
                l!("                simrt::wide_model!(WideM, WideR, {}, {});", fields.len(), fields.iter().enumerate().map(|(i, f)| format!("f{}: {}", i, f.ty)).collect::<Vec<_>>().join(", "));
                l!("                enc(fmt, w, &WideR {{ {} }})", fields.iter().enumerate().map(|(i, f)| format!("f{}: r.{}()", i, f.name)).collect::<Vec<_>>().join(", "));
                l!("            }}");
                continue;
            }
            l!("            R::V{}(r) => enc(fmt, w, {}),", vi, tuple_refs(fields));
        }
        l!("        }}");
    } else {
        l!("        unreachable!(\"serde fragment not generated\")");
    }
    l!("    }}");
    l!("    fn decode(v: usize, fmt: Fmt, r: &mut dyn Read) -> Result<Self, String> {{");
    if plan.serde {
        l!("        match v {{ {}, _ => unreachable!() }}", (0..nv).map(|vi| format!("{0} => dec::<CappedRecord{0}<CAP>>(fmt, r).map(R::V{0})", vi)).collect::<Vec<_>>().join(", "));
    } else {
        l!("        unreachable!(\"serde fragment not generated\")");
    }
    l!("    }}");
    l!("    fn decode_model(v: usize, fmt: Fmt, r: &mut dyn Read, out: &mut ObsList) -> Result<(), String> {{");
    if plan.serde {
        l!("        match v {{");
        for (vi, fields) in variants.iter().enumerate() {
            l!("            {} => {{", vi);
            if fields.is_empty() {
                l!("                let _t: [u8; 0] = dec(fmt, r)?;");
            } else if fields.len() > 16 {
                l!("                simrt::wide_model!(WideM, WideR, {}, {});", fields.len(), fields.iter().enumerate().map(|(i, f)| format!("f{}: {}", i, f.ty)).collect::<Vec<_>>().join(", "));
                l!("                let t: WideM = dec(fmt, r)?;");
                for (i, f) in fields.iter().enumerate() {
                    l!("                {{ let o = t.f{}.obs(); simrt::alloc::harness(|| out.push((0, {}, o))); }}", i, f.datum);
                }
            } else {
                l!("                let t: ({},) = dec(fmt, r)?;", fields.iter().map(|f| f.ty.clone()).collect::<Vec<_>>().join(", "));
                for (i, f) in fields.iter().enumerate() {
                    l!("                {{ let o = t.{}.obs(); simrt::alloc::harness(|| out.push((0, {}, o))); }}", i, f.datum);
                }
            }
            l!("                Ok(())");
            l!("            }}");
        }
        l!("            _ => unreachable!(),");
        l!("        }}");
    } else {
        l!("        unreachable!(\"serde fragment not generated\")");
    }
    l!("    }}");

    // ---- vector conversion
    l!("    fn vec_convert(recs: Vec<Self>, form: Form, script: &[VAct], src: &mut Src, skip: &[bool], removed: &mut ObsList, log: &mut VecLog) -> Result<Vec<Self>, VecFail> {{");
    l!("        let v = match recs.first() {{ Some(r) => r.variant(), None => 0 }};");
    l!("        match v {{");
    for vi in 0..nv {
        if vi + 1 >= nv {
            continue;
        }
        l!("            {} => {{", vi);
        l!("                let mut input: Vec<CappedRecord{}<CAP>> = Vec::with_capacity(recs.len());", vi);
        l!("                for r in recs {{ match r {{ R::V{}(x) => input.push(x), _ => unreachable!() }} }}", vi);
        l!("                let removed_cell = std::cell::RefCell::new(removed);");
        l!(
            "                let res = drive_vec_convert::<CappedRecord{}<CAP>, CappedRecord{}<CAP>>(input, script, src, log, &mut |rec, src| match R::V{}(rec).convert(form, src, skip, &mut **removed_cell.borrow_mut()) {{ R::V{}(x) => x, _ => unreachable!() }});",
            vi,
            vi + 1,
            vi,
            vi + 1
        );
        l!("                res.map(|out| out.into_iter().map(R::V{}).collect())", vi + 1);
        l!("            }}");
    }
    l!("            _ => unreachable!(\"no next variant\"),");
    l!("        }}");
    l!("    }}");
    l!("}}");
    s
}

/// The source of one definition module: the verbatim generated code plus its glue.
pub fn emit_definition_module(built: &Built, generated: &str) -> String {
    let mut s = String::new();
    let _ = writeln!(s, "pub mod gen {{");
    let _ = writeln!(s, "#![allow(dead_code, unused_imports, unused_variables, clippy::all)]");
    s.push_str(generated);
    let _ = writeln!(s, "\n}}");
    let _ = writeln!(s, "pub mod glue {{");
    s.push_str(&emit(built, generated));
    let _ = writeln!(s, "}}");
    s
}
