//! SIM-V: deterministic simulation of `truc_runtime::convert` (C08, C09, C10).
//!
//! System under test (real code): `convert_vec_in_place`, `try_convert_vec_in_place`.
//! Stubs: element types (ledger tokens, heap owners, plain data), the converter (a script drawn
//! from the PRNG that converts, abandons, mutates the previous output, returns an error or
//! panics at a chosen instant), the global allocator wrapper (accounting only).

use serde::{Deserialize, Serialize};
use simrt::alloc::{self, CountingAlloc};
use simrt::ledger;
use simrt::rng::{derive, Rng};
use simrt::tok::*;
use simrt::{fold, fold_str, FNV_INIT};
use std::any::Any;
use std::cell::RefCell;
use std::collections::BTreeSet;
use std::panic::{catch_unwind, AssertUnwindSafe, RefUnwindSafe};
use truc_runtime::convert::{convert_vec_in_place, try_convert_vec_in_place, VecElementConversionResult};

#[global_allocator]
static GLOBAL: CountingAlloc = CountingAlloc;

// ---------------------------------------------------------------------------------------------
// cases
// ---------------------------------------------------------------------------------------------

#[derive(Serialize, Deserialize, Clone, Copy, Debug, PartialEq, Eq, PartialOrd, Ord)]
enum At {
    /// the converter still holds its input
    BeforeDropInput,
    /// the converter dropped its input
    AfterDropInput,
    /// the converter dropped its input and built its output
    AfterBuildOutput,
    /// the converter has just written through the previous-output reference (and still holds its input)
    HoldingPrev,
}

#[derive(Serialize, Deserialize, Clone, Copy, Debug, PartialEq, Eq, PartialOrd, Ord)]
enum Payload {
    Str,
    String,
    Custom,
}

#[derive(Serialize, Deserialize, Clone, Copy, Debug, PartialEq, Eq, PartialOrd, Ord)]
enum Act {
    Conv,
    ConvMutPrev,
    ConvReadPrev,
    Abandon,
    /// writes through the previous-output reference, then abandons the current element
    AbandonMutPrev,
    Err(At),
    Panic(At, Payload),
}

impl Act {
    fn is_fault(&self) -> bool {
        matches!(self, Act::Err(_) | Act::Panic(..))
    }
    fn code(&self) -> u64 {
        match self {
            Act::Conv => 1,
            Act::ConvMutPrev => 2,
            Act::ConvReadPrev => 3,
            Act::Abandon => 4,
            Act::AbandonMutPrev => 5,
            Act::Err(at) => 10 + *at as u64,
            Act::Panic(at, p) => 20 + (*at as u64) * 4 + *p as u64,
        }
    }
    fn kind_name(&self) -> String {
        match self {
            Act::Err(at) => format!("conv.err.{}", at_name(*at)),
            Act::Panic(at, p) => format!("conv.panic.{}.{}", at_name(*at), format!("{:?}", p).to_lowercase()),
            _ => "none".into(),
        }
    }
}

fn at_name(at: At) -> &'static str {
    match at {
        At::BeforeDropInput => "before_drop",
        At::AfterDropInput => "after_drop",
        At::AfterBuildOutput => "after_build",
        At::HoldingPrev => "holding_prev",
    }
}

#[derive(Serialize, Deserialize, Clone, Copy, Debug, PartialEq, Eq)]
enum Api {
    /// `try_convert_vec_in_place`
    Try,
    /// `convert_vec_in_place`
    Plain,
}

#[derive(Serialize, Deserialize, Clone, Debug, PartialEq, Eq)]
struct Case {
    /// name of the element type pair (see `PAIRS` / `MISMATCH`)
    pair: String,
    len: usize,
    /// capacity of the input vector beyond its length
    extra_cap: usize,
    api: Api,
    /// one action per input index; everything after the first fault is never executed
    script: Vec<Act>,
    /// error type of the converter: 0 plain `Copy` struct, 1 heap-owning, 2 zero-size, 3 large (264 bytes)
    #[serde(default)]
    err: u8,
}

impl Case {
    fn fault(&self) -> Option<(usize, Act)> {
        self.script.iter().enumerate().find(|(_, a)| a.is_fault()).map(|(i, a)| (i, *a))
    }
    /// hash of what distinguishes this case (script cut after the first fault)
    fn shape_hash(&self) -> u64 {
        let mut h = FNV_INIT;
        fold_str(&mut h, &self.pair);
        fold(&mut h, self.len as u64);
        fold(&mut h, self.extra_cap as u64);
        fold(&mut h, self.api as u64);
        fold(&mut h, self.err as u64);
        for a in &self.script {
            fold(&mut h, a.code());
            if a.is_fault() {
                break;
            }
        }
        h
    }
    fn nontrivial(&self) -> bool {
        self.len >= 1
    }
}

// ---------------------------------------------------------------------------------------------
// outcome of one simulated run
// ---------------------------------------------------------------------------------------------

#[derive(Serialize, Deserialize, Clone, Debug, Default)]
struct Violation {
    property: String,
    clause: String,
    message: String,
}

#[derive(Default, Debug)]
struct Outcome {
    violations: Vec<Violation>,
    hash: u64,
    steps: u64,
    fault_fired: Option<String>,
    probes: Vec<&'static str>,
    /// "ok", "err", "panic"
    ended: &'static str,
}

impl Outcome {
    fn v(&mut self, clause: &str, message: String) {
        alloc::harness(|| {
            let property = clause.split('/').next().unwrap().to_string();
            self.violations.push(Violation { property, clause: clause.to_string(), message: message.clone() });
        });
        drop(message);
    }
}

#[derive(Debug, PartialEq, Eq, Clone, Copy)]
struct InjectedErr {
    id: u64,
}

/// The converter's error type is a dimension of the case: the runtime moves the error out of the
/// converter's result while it tears the half-converted vector down.
trait ErrVal: 'static {
    fn make(id: u64) -> Self;
    /// the identity carried by the value (`None`: the type cannot carry one), and whether it is intact
    fn id(&self) -> Option<u64>;
}
impl ErrVal for InjectedErr {
    fn make(id: u64) -> Self {
        InjectedErr { id }
    }
    fn id(&self) -> Option<u64> {
        Some(self.id)
    }
}
/// owns a heap block: a lost error shows as live bytes, a duplicated one as a double free
struct ErrHeap(Box<[u64; 3]>);
impl ErrVal for ErrHeap {
    fn make(id: u64) -> Self {
        ErrHeap(Box::new([id, !id, id.rotate_left(17)]))
    }
    fn id(&self) -> Option<u64> {
        let [a, b, c] = *self.0;
        Some(if b == !a && c == a.rotate_left(17) { a } else { u64::MAX })
    }
}
struct ErrZst;
impl ErrVal for ErrZst {
    fn make(_: u64) -> Self {
        ErrZst
    }
    fn id(&self) -> Option<u64> {
        None
    }
}
/// larger than any element type: returned through memory, not registers
struct ErrBig {
    id: u64,
    pad: [u64; 32],
}
impl ErrVal for ErrBig {
    fn make(id: u64) -> Self {
        let mut pad = [0u64; 32];
        for (i, p) in pad.iter_mut().enumerate() {
            *p = id ^ (i as u64).wrapping_mul(0x9e37_79b9_7f4a_7c15);
        }
        ErrBig { id, pad }
    }
    fn id(&self) -> Option<u64> {
        let ok = self.pad.iter().enumerate().all(|(i, p)| *p == self.id ^ (i as u64).wrapping_mul(0x9e37_79b9_7f4a_7c15));
        Some(if ok { self.id } else { u64::MAX })
    }
}

fn run_case_any<T: Val, U: Val>(case: &Case) -> Outcome {
    match case.err {
        1 => run_case::<T, U, ErrHeap>(case),
        2 => run_case::<T, U, ErrZst>(case),
        3 => run_case::<T, U, ErrBig>(case),
        _ => run_case::<T, U, InjectedErr>(case),
    }
}

#[derive(Debug, PartialEq, Eq, Clone, Copy)]
struct CustomPayload {
    id: u64,
}

struct ConvState {
    calls: Vec<usize>,
    /// model of the outputs produced so far (instance, payload), updated when the stub writes
    /// through the previous-output reference
    produced: Vec<Obs>,
    next_pay: u64,
    notes: Vec<(&'static str, String)>,
    hash: u64,
    faulted: bool,
}

/// Wrapper that makes the converter closure `RefUnwindSafe` (its state is only inspected after
/// the unwinding has been caught, and the oracle expects exactly the state at the panic).
struct Shared(RefCell<ConvState>);
impl RefUnwindSafe for Shared {}
impl Shared {
    fn st(&self) -> std::cell::RefMut<'_, ConvState> {
        self.0.borrow_mut()
    }
}

const FAULT_ID_BASE: u64 = 0x5151_0000;

fn run_case<T: Val, U: Val, E: ErrVal>(case: &Case) -> Outcome {
    let mut out = Outcome::default();
    out.hash = FNV_INIT;
    ledger::reset();
    let len = case.len;

    // harness structures are kept out of the allocation accounting and never grow during the call
    let (shared, mut inputs, script) = alloc::harness(|| {
        let shared = Shared(RefCell::new(ConvState {
            calls: Vec::with_capacity(len + 2),
            produced: Vec::with_capacity(len + 2),
            next_pay: 1000,
            notes: Vec::with_capacity(64),
            hash: FNV_INIT,
            faulted: false,
        }));
        let inputs: Vec<Obs> = Vec::with_capacity(len);
        let script: Vec<Act> = (0..len).map(|i| case.script.get(i).copied().unwrap_or(Act::Conv)).collect();
        out.probes.reserve(16);
        (shared, inputs, script)
    });
    let fault_id = FAULT_ID_BASE + case.fault().map(|(i, _)| i as u64).unwrap_or(0);

    let base_bytes = alloc::live_bytes();
    let zst_a0 = ledger::zst_counts(T::CLASS);
    let zst_b0 = ledger::zst_counts(U::CLASS);

    let mut input: Vec<T> = Vec::with_capacity(len + case.extra_cap);
    for i in 0..len {
        let t = T::make(1 + i as u64);
        inputs.push(t.obs());
        input.push(t);
    }
    let in_ptr = input.as_ptr() as usize;
    let in_cap = input.capacity();
    let t_size = std::mem::size_of::<T>();
    alloc::watch(in_ptr, in_cap.wrapping_mul(t_size), std::mem::align_of::<T>());
    let buffer_is_real = t_size != 0 && in_cap != 0;
    if T::ZST {
        out.probes.push("zst_vector");
    }
    if len == 0 {
        out.probes.push("empty_vector");
    }

    let inputs_ref = &inputs;
    let script_ref = &script;
    let shared_ref = &shared;
    let converter = move |t: T, mut prev: Option<&mut U>| -> Result<VecElementConversionResult<U>, E> {
        let mut st = shared_ref.st();
        let k = st.calls.len();
        st.calls.push(k);
        if st.faulted {
            st.notes.push(("C09/no-further-calls", format!("converter called again (call #{}) after it failed", k)));
        }
        // the input element: exactly once, in order
        let tobs = t.obs();
        let tobs_cmp = if T::TRACKED || T::ZST { tobs } else { Obs { inst: 0, pay: tobs.pay } };
        match inputs_ref.get(k) {
            Some(exp) if *exp == tobs_cmp => {}
            other => st.notes.push((
                "C08/call-order",
                format!("call #{} received element {:?}, expected input #{} = {:?}", k, tobs, k, other),
            )),
        }
        // the previous output: none before the first produced one, afterwards the most recent
        let last_produced: Option<Obs> = st.produced.last().copied();
        match (&prev, last_produced.as_ref()) {
            (None, None) => {}
            (Some(p), Some(exp)) => {
                let o = p.obs();
                if o != *exp {
                    st.notes.push(("C08/prev-arg", format!("call #{}: previous output is {:?}, expected {:?}", k, o, exp)));
                }
            }
            (None, Some(exp)) => st.notes.push(("C08/prev-arg", format!("call #{}: no previous output given, expected {:?}", k, exp))),
            (Some(p), None) => st.notes.push(("C08/prev-arg", format!("call #{}: previous output {:?} given before any was produced", k, p.obs()))),
        }
        let act = script_ref.get(k).copied().unwrap_or(Act::Conv);
        let h = &mut st.hash;
        fold(h, k as u64);
        fold(h, act.code());
        fold(h, prev.as_ref().map(|p| p.obs().pay).unwrap_or(u64::MAX));
        let fresh = |st: &mut ConvState| {
            st.next_pay += 1;
            st.next_pay
        };
        let mutate_prev = |st: &mut ConvState, prev: &mut Option<&mut U>| {
            if let Some(p) = prev.as_mut() {
                let pay = fresh(st);
                p.set_pay(pay);
                let o = p.obs();
                *st.produced.last_mut().unwrap() = o;
            }
        };
        match act {
            Act::Conv | Act::ConvReadPrev => {
                drop(t);
                let pay = fresh(&mut st);
                let u = U::make(pay);
                let o = u.obs();
                st.produced.push(o);
                Ok(VecElementConversionResult::Converted(u))
            }
            Act::ConvMutPrev => {
                mutate_prev(&mut st, &mut prev);
                drop(t);
                let pay = fresh(&mut st);
                let u = U::make(pay);
                let o = u.obs();
                st.produced.push(o);
                Ok(VecElementConversionResult::Converted(u))
            }
            Act::Abandon => {
                drop(t);
                Ok(VecElementConversionResult::Abandonned)
            }
            Act::AbandonMutPrev => {
                mutate_prev(&mut st, &mut prev);
                drop(t);
                Ok(VecElementConversionResult::Abandonned)
            }
            Act::Err(at) => {
                st.faulted = true;
                let id = FAULT_ID_BASE + k as u64;
                match at {
                    At::BeforeDropInput => {
                        drop(st);
                        let r = Err(E::make(id));
                        drop(t);
                        r
                    }
                    At::AfterDropInput => {
                        drop(t);
                        Err(E::make(id))
                    }
                    At::AfterBuildOutput => {
                        drop(t);
                        let u = U::make(fresh(&mut st));
                        drop(st);
                        let r = Err(E::make(id));
                        drop(u);
                        r
                    }
                    At::HoldingPrev => {
                        mutate_prev(&mut st, &mut prev);
                        drop(st);
                        let r = Err(E::make(id));
                        drop(t);
                        r
                    }
                }
            }
            Act::Panic(at, payload) => {
                st.faulted = true;
                let id = FAULT_ID_BASE + k as u64;
                // values alive at the panic are dropped by the unwinding of this frame
                let _t_holder;
                let _u_holder;
                match at {
                    At::BeforeDropInput => _t_holder = Some(t),
                    At::AfterDropInput => drop(t),
                    At::AfterBuildOutput => {
                        drop(t);
                        _u_holder = Some(U::make(fresh(&mut st)));
                    }
                    At::HoldingPrev => {
                        mutate_prev(&mut st, &mut prev);
                        _t_holder = Some(t);
                    }
                }
                drop(st);
                match payload {
                    Payload::Str => std::panic::panic_any("injected-static-str"),
                    Payload::String => std::panic::panic_any(format!("injected-string-{}", id)),
                    Payload::Custom => std::panic::panic_any(CustomPayload { id }),
                }
            }
        }
    };

    // ---- the call ------------------------------------------------------------------------
    let result: Result<Result<Vec<U>, E>, Box<dyn Any + Send>> = match case.api {
        Api::Try => catch_unwind(AssertUnwindSafe(|| try_convert_vec_in_place::<T, U, _, E>(input, converter))),
        Api::Plain => catch_unwind(AssertUnwindSafe(|| {
            Ok(convert_vec_in_place::<T, U, _>(input, move |t, p| match converter(t, p) {
                Ok(r) => r,
                Err(_) => unreachable!("error actions are not generated for the plain api"),
            }))
        })),
    };

    // ---- oracles --------------------------------------------------------------------------
    let st = shared.0.into_inner();
    for (clause, msg) in &st.notes {
        out.v(clause, msg.clone());
    }
    out.steps = st.calls.len() as u64 + 1;
    out.hash = st.hash;
    let expected_calls = case.fault().map(|(i, _)| i + 1).unwrap_or(len).min(len);
    let planned_fault = case.fault().filter(|(i, _)| *i < len);
    let watch = alloc::watch_report();

    let live_tokens_now = |_: ()| -> (usize, isize, isize) {
        let za = ledger::zst_counts(T::CLASS);
        let zb = ledger::zst_counts(U::CLASS);
        let za_live = (za.0 - zst_a0.0) as isize - (za.1 - zst_a0.1) as isize;
        let zb_live = (zb.0 - zst_b0.0) as isize - (zb.1 - zst_b0.1) as isize;
        (ledger::live(), za_live, zb_live)
    };

    match result {
        Ok(Ok(vec_u)) => {
            out.ended = "ok";
            if let Some((i, a)) = planned_fault {
                out.v("C09/error-identity", format!("the converter failed at index {} ({:?}) but the call returned Ok", i, a));
            }
            if st.calls.len() != expected_calls {
                out.v("C08/call-order", format!("converter called {} times for {} input elements", st.calls.len(), len));
            }
            // exactly the produced values, in order
            let got: Vec<Obs> = vec_u.iter().map(|u| u.obs()).collect();
            if got != st.produced {
                out.v("C08/result-values", format!("result holds {:?}, the converter produced {:?}", got, st.produced));
            }
            // in place: same allocation, same capacity, never freed or reallocated during the call
            if vec_u.capacity() != in_cap {
                out.v("C08/capacity", format!("result capacity {} differs from the input's {}", vec_u.capacity(), in_cap));
            }
            if buffer_is_real {
                if vec_u.as_ptr() as usize != in_ptr {
                    out.v("C08/buffer-identity", "result vector does not start at the input vector's buffer".into());
                }
                if watch.deallocs != 0 || watch.reallocs != 0 {
                    out.v("C08/buffer-identity", format!("input buffer was freed {} / reallocated {} times during the call", watch.deallocs, watch.reallocs));
                }
            }
            // every input is gone (the converter consumed it), every produced output is alive
            for (i, o) in inputs.iter().enumerate() {
                if T::TRACKED && o.inst != 0 && !ledger::is_destroyed_once(o.inst) {
                    out.v("C08/inputs-consumed", format!("input #{} (instance {}) is not destroyed exactly once after a successful conversion", i, o.inst));
                }
            }
            for (i, o) in st.produced.iter().enumerate() {
                if U::TRACKED && o.inst != 0 && !ledger::is_live(o.inst) {
                    out.v("C08/result-values", format!("output #{} (instance {}) is not alive in the returned vector", i, o.inst));
                }
            }
            let (_, za, zb) = live_tokens_now(());
            if T::COUNTED && za != 0 {
                out.v("C08/inputs-consumed", format!("{} zero-size inputs alive after a successful conversion", za));
            }
            if U::COUNTED && zb != st.produced.len() as isize {
                out.v("C08/result-values", format!("{} zero-size outputs alive, {} produced", zb, st.produced.len()));
            }
            fold(&mut out.hash, 0xa0 + got.len() as u64);
            drop(vec_u);
            let w2 = alloc::watch_report();
            if buffer_is_real && (w2.deallocs != 1 || w2.bad_layout != 0) {
                out.v("C08/buffer-identity", format!("dropping the result freed the input buffer {} times (layout mismatches: {})", w2.deallocs, w2.bad_layout));
            }
            let (live, za, zb) = live_tokens_now(());
            if live != 0 || za != 0 || zb != 0 {
                out.v("C08/result-values", format!("{} values still alive after the result vector was dropped", live as isize + za + zb));
            }
        }
        failed => {
            // Err(e) or panic: everything must already be gone when the caller gets control back
            let (live, za, zb) = live_tokens_now(());
            if live != 0 || za != 0 || zb != 0 {
                let missing_in: Vec<usize> = inputs.iter().enumerate().filter(|(_, o)| T::TRACKED && ledger::is_live(o.inst)).map(|(i, _)| i).collect();
                let missing_out: Vec<usize> = st.produced.iter().enumerate().filter(|(_, o)| U::TRACKED && ledger::is_live(o.inst)).map(|(i, _)| i).collect();
                if !missing_in.is_empty() || za != 0 {
                    out.v("C09/input-dropped-once", format!("inputs {:?} (+{} zero-size) were not dropped when the call failed", missing_in, za));
                }
                if !missing_out.is_empty() || zb != 0 {
                    out.v("C09/output-dropped-once", format!("outputs {:?} (+{} zero-size) were not dropped when the call failed", missing_out, zb));
                }
                if missing_in.is_empty() && missing_out.is_empty() && za == 0 && zb == 0 {
                    out.v("C09/output-dropped-once", format!("{} values alive when the call failed", live));
                }
            }
            if buffer_is_real && (watch.deallocs != 1 || watch.bad_layout != 0) {
                out.v("C09/buffer-released", format!("the vector's buffer was freed {} times when the call failed (layout mismatches: {})", watch.deallocs, watch.bad_layout));
            }
            if st.calls.len() != expected_calls {
                out.v("C09/no-further-calls", format!("converter called {} times, the fault was at call #{}", st.calls.len(), expected_calls));
            }
            match failed {
                Ok(Err(e)) => {
                    out.ended = "err";
                    match planned_fault {
                        Some((i, Act::Err(_))) => {
                            if let Some(got) = e.id() {
                                if got != FAULT_ID_BASE + i as u64 {
                                    out.v("C09/error-identity", format!("caller received error {:#x}, the converter returned {:#x}", got, fault_id));
                                }
                            }
                        }
                        other => out.v("C09/error-identity", format!("caller received an error although the script was {:?}", other)),
                    }
                }
                Err(payload) => {
                    out.ended = "panic";
                    match planned_fault {
                        Some((i, Act::Panic(_, kind))) => {
                            let id = FAULT_ID_BASE + i as u64;
                            let ok = match kind {
                                Payload::Str => payload.downcast_ref::<&'static str>() == Some(&"injected-static-str"),
                                Payload::String => payload.downcast_ref::<String>().map(|s| s.as_str()) == Some(&format!("injected-string-{}", id)[..]),
                                Payload::Custom => payload.downcast_ref::<CustomPayload>() == Some(&CustomPayload { id }),
                            };
                            if !ok {
                                let seen = if let Some(s) = payload.downcast_ref::<String>() {
                                    format!("String({:?})", s)
                                } else if let Some(s) = payload.downcast_ref::<&'static str>() {
                                    format!("&str({:?})", s)
                                } else {
                                    "another type".to_string()
                                };
                                out.v("C09/payload-identity", format!("caller caught {} instead of the {:?} payload the converter panicked with", seen, kind));
                            }
                        }
                        other => {
                            let msg = payload.downcast_ref::<String>().cloned().or_else(|| payload.downcast_ref::<&str>().map(|s| s.to_string())).unwrap_or_default();
                            out.v("C09/payload-identity", format!("the call panicked ({:?}) although the script was {:?}", msg, other));
                        }
                    }
                    drop(payload);
                }
                Ok(Ok(_)) => unreachable!(),
            }
            fold(&mut out.hash, 0xb0 + st.calls.len() as u64);
        }
    }
    if let Some((_, a)) = planned_fault {
        if st.faulted {
            out.fault_fired = alloc::harness(|| Some(a.kind_name()));
        }
    }
    // ledger anomalies (double destruction, destruction as another type, garbage ids)
    for a in ledger::anomalies() {
        let clause = if out.ended == "ok" { "C08/ledger" } else { "C09/ledger" };
        out.v(clause, format!("{:?}", a));
    }
    let produced_n = st.produced.len();
    drop(st);
    drop(inputs);
    drop(script);
    alloc::unwatch();
    let end_bytes = alloc::live_bytes();
    if end_bytes != base_bytes {
        let clause = if out.ended == "ok" { "C08/live-bytes" } else { "C09/live-bytes" };
        out.v(clause, format!("{} bytes still allocated after the call and its results were dropped", end_bytes - base_bytes));
    }
    // probes
    if let Some((i, a)) = planned_fault {
        if i == 0 {
            out.probes.push("fault_at_first");
        }
        if i + 1 == len {
            out.probes.push("fault_at_last");
        }
        if produced_n > 0 {
            out.probes.push("fault_after_some_output");
        }
        if matches!(a, Act::Panic(At::HoldingPrev, _) | Act::Err(At::HoldingPrev)) && produced_n > 0 {
            out.probes.push("fault_while_prev_borrowed");
        }
    } else if len > 0 && produced_n == 0 {
        out.probes.push("all_abandoned");
    }
    if planned_fault.is_none() && case.script.iter().take(len).any(|a| *a == Act::ConvMutPrev) && produced_n >= 2 {
        out.probes.push("prev_mutated");
    }
    if planned_fault.is_none() && produced_n >= 1 && case.script.iter().take(len).skip(1).any(|a| *a == Act::AbandonMutPrev) {
        out.probes.push("prev_mutated_then_abandoned");
    }
    out
}

/// C10: `T` and `U` differ in size or alignment: the call must be refused.
fn run_mismatch<T: Val, U: 'static>(case: &Case) -> Outcome {
    let mut out = Outcome::default();
    out.hash = FNV_INIT;
    ledger::reset();
    let len = case.len;
    let (calls, mut inputs) = alloc::harness(|| {
        (
            Shared(RefCell::new(ConvState { calls: Vec::with_capacity(len + 1), produced: Vec::new(), next_pay: 0, notes: Vec::new(), hash: 0, faulted: false })),
            Vec::<Obs>::with_capacity(len),
        )
    });
    let base_bytes = alloc::live_bytes();
    let z0 = ledger::zst_counts(T::CLASS);
    let mut input: Vec<T> = Vec::with_capacity(len + case.extra_cap);
    for i in 0..len {
        let t = T::make(1 + i as u64);
        inputs.push(t.obs());
        input.push(t);
    }
    let in_cap = input.capacity();
    let t_size = std::mem::size_of::<T>();
    alloc::watch(input.as_ptr() as usize, in_cap.wrapping_mul(t_size), std::mem::align_of::<T>());
    let buffer_is_real = t_size != 0 && in_cap != 0;
    let calls_ref = &calls;
    let result = catch_unwind(AssertUnwindSafe(|| {
        try_convert_vec_in_place::<T, U, _, ()>(input, move |t, _| {
            let mut st = calls_ref.st();
            let k = st.calls.len();
            st.calls.push(k);
            drop(t);
            Ok(VecElementConversionResult::Abandonned)
        })
    }));
    let st = calls.0.into_inner();
    out.steps = 1;
    let watch = alloc::watch_report();
    match &result {
        Ok(_) => {
            out.ended = "ok";
            out.v("C10/must-panic", format!("conversion between element types of size/alignment ({}, {}) and ({}, {}) was not refused", t_size, std::mem::align_of::<T>(), std::mem::size_of::<U>(), std::mem::align_of::<U>()));
        }
        Err(_) => out.ended = "panic",
    }
    if !st.calls.is_empty() {
        out.v("C10/converter-called", format!("the converter was called {} times for mismatching element types", st.calls.len()));
    }
    fold(&mut out.hash, result.is_err() as u64);
    // forget a wrongly typed result instead of running drop glue of the wrong type on it
    if let Ok(r) = result {
        std::mem::forget(r);
    } else {
        drop(result);
        for (i, o) in inputs.iter().enumerate() {
            if T::TRACKED && o.inst != 0 && !ledger::is_destroyed_once(o.inst) {
                out.v("C10/input-dropped-once", format!("input #{} (instance {}) was not dropped exactly once after the refusal", i, o.inst));
            }
        }
        let z = ledger::zst_counts(T::CLASS);
        if T::COUNTED && (z.0 - z0.0) != (z.1 - z0.1) {
            out.v("C10/input-dropped-once", format!("{} zero-size inputs created, {} dropped", z.0 - z0.0, z.1 - z0.1));
        }
        if buffer_is_real && (watch.deallocs != 1 || watch.bad_layout != 0) {
            out.v("C10/buffer-released", format!("the input buffer was freed {} times after the refusal", watch.deallocs));
        }
        for a in ledger::anomalies() {
            out.v("C10/input-dropped-once", format!("{:?}", a));
        }
        drop(st);
        drop(inputs);
        alloc::unwatch();
        if alloc::live_bytes() != base_bytes {
            out.v("C10/buffer-released", format!("{} bytes still allocated after the refusal", alloc::live_bytes() - base_bytes));
        }
    }
    out.fault_fired = alloc::harness(|| Some("conv.layout_mismatch".into()));
    out
}

// ---------------------------------------------------------------------------------------------
// catalogue of element type pairs
// ---------------------------------------------------------------------------------------------

/// over-aligned zero-size type
#[repr(align(16))]
struct ZstAl16;

type Runner = fn(&Case) -> Outcome;

struct Pair {
    name: &'static str,
    run: Runner,
    desc: &'static str,
}

macro_rules! pair {
    ($name:expr, $t:ty, $u:ty) => {
        Pair { name: $name, run: run_case_any::<$t, $u>, desc: concat!(stringify!($t), " -> ", stringify!($u)) }
    };
}
macro_rules! mismatch {
    ($name:expr, $t:ty, $u:ty) => {
        Pair { name: $name, run: run_mismatch::<$t, $u>, desc: concat!(stringify!($t), " -> ", stringify!($u)) }
    };
}

fn pairs() -> Vec<Pair> {
    vec![
        pair!("tok8", TokA8, TokB8),
        pair!("tok3", TokA3, TokB3),
        pair!("tok16", TokA16, TokB16),
        pair!("tok64", TokA64, TokB64),
        pair!("tok96", TokA96, TokB96),
        pair!("u64x16", [u64; 16], [u64; 16]),
        pair!("tokheap", TokAH, TokBH),
        pair!("zst", TokAZ, TokBZ),
        pair!("string", String, String),
        pair!("vecu32", Vec<u32>, Vec<u32>),
        pair!("boxtok", Box<TokA8>, Box<TokB8>),
        pair!("opttok", Option<TokA8>, Option<TokB8>),
        pair!("u32", u32, u32),
        pair!("u8x3", [u8; 3], [u8; 3]),
        pair!("tok8_to_u64", TokA8, u64),
        pair!("u64_to_tok8", u64, TokB8),
        pair!("al16", Al16, Al16),
        pair!("unit", (), ()),
    ]
}

fn mismatches() -> Vec<Pair> {
    vec![
        mismatch!("m_4_4__8_8", u32, u64),
        mismatch!("m_8_8__8_4", u64, [u32; 2]),
        mismatch!("m_4_4__4_2", u32, [u16; 2]),
        mismatch!("m_0_1__1_1", TokAZ, u8),
        mismatch!("m_1_1__0_1", u8, TokBZ),
        mismatch!("m_16_16__16_8", TokA16, [u64; 2]),
        mismatch!("m_3_1__4_1", TokA3, [u8; 4]),
        mismatch!("m_3_1__4_4", [u8; 3], u32),
        mismatch!("m_tok8__8_4", TokA8, [u32; 2]),
        mismatch!("m_tok8__16_16", TokA8, TokB16),
        mismatch!("m_tok64__8_8", TokA64, TokB8),
        mismatch!("m_box__16_16", Box<TokA8>, TokB16),
        mismatch!("m_string__8_8", String, u64),
        mismatch!("m_8_8__0_1", TokAH, ()),
        // zero-size on both sides, different alignment
        mismatch!("m_0_1__0_8", TokAZ, [u64; 0]),
        mismatch!("m_0_8__0_1", [u64; 0], TokBZ),
        mismatch!("m_0_1__0_16", (), ZstAl16),
        // same size, alignment differs, no drop glue on either side
        mismatch!("m_16_16__16_8_plain", Al16, [u64; 2]),
        mismatch!("m_2_2__2_1", u16, [u8; 2]),
    ]
}

fn find_runner(name: &str) -> Option<Runner> {
    pairs().into_iter().chain(mismatches()).find(|p| p.name == name).map(|p| p.run)
}

fn evaluate(case: &Case) -> Outcome {
    match find_runner(&case.pair) {
        Some(r) => r(case),
        None => {
            eprintln!("vecsim: unknown pair {}", case.pair);
            std::process::exit(2);
        }
    }
}

// ---------------------------------------------------------------------------------------------
// generation (swarm) and enumeration
// ---------------------------------------------------------------------------------------------

#[derive(Clone, Copy, PartialEq, Eq, Debug)]
enum Mode {
    /// fault-free arm (C08)
    Free,
    /// exactly one injected error or panic (C09)
    Fault,
    /// layout mismatch matrix (C10)
    Mismatch,
}

const ALL_AT_ERR: [At; 4] = [At::BeforeDropInput, At::AfterDropInput, At::AfterBuildOutput, At::HoldingPrev];
const ALL_PAYLOAD: [Payload; 3] = [Payload::Str, Payload::String, Payload::Custom];

fn gen_len(rng: &mut Rng) -> usize {
    // now and then a long vector (thresholds in chunked or batched implementations)
    if rng.chance(1, 25) {
        return *rng.pick(&[63usize, 64, 65, 127, 128, 129, 255, 256, 257, 300, 1000]);
    }
    match rng.below(10) {
        0 => 0,
        1 => 1,
        2 => 2,
        3 => 3,
        4 | 5 => rng.range(4, 8),
        _ => rng.range(0, 40),
    }
}

fn gen_case(seed: u64, run: u64, mode: Mode, max_len: usize) -> Case {
    let mut rng = Rng::new(derive(seed, mode as u64 + 1, run));
    let len = gen_len(&mut rng).min(max_len);
    let extra_cap = *rng.pick(&[0, 0, 1, 7]);
    if mode == Mode::Mismatch {
        let ms = mismatches();
        return Case { pair: rng.pick(&ms).name.to_string(), len, extra_cap, api: Api::Try, script: vec![], err: 0 };
    }
    let ps = pairs();
    let pair = rng.pick(&ps).name.to_string();
    // swarm: per-run operation mix
    let w_conv = rng.range(1, 6);
    let w_mut = rng.below(4);
    let w_read = rng.below(3);
    let w_aband = [0, 1, 3, 8][rng.below(4)];
    let w_aband_mut = [0, 1, 2][rng.below(3)];
    let weights = [w_conv, w_mut, w_read, w_aband, w_aband_mut];
    let mut script: Vec<Act> = (0..len)
        .map(|_| match rng.weighted(&weights) {
            0 => Act::Conv,
            1 => Act::ConvMutPrev,
            2 => Act::ConvReadPrev,
            3 => Act::Abandon,
            _ => Act::AbandonMutPrev,
        })
        .collect();
    let mut api = if rng.chance(1, 3) { Api::Plain } else { Api::Try };
    if mode == Mode::Fault {
        let len = if len == 0 { 1 } else { len };
        if script.is_empty() {
            script.push(Act::Conv);
        }
        // position: uniform, biased to first, last and right after the first converted element
        let pos = match rng.below(6) {
            0 => 0,
            1 => len - 1,
            2 => script.iter().position(|a| matches!(a, Act::Conv | Act::ConvMutPrev | Act::ConvReadPrev)).map(|i| (i + 1).min(len - 1)).unwrap_or(0),
            _ => rng.below(len),
        };
        let at = *rng.pick(&ALL_AT_ERR);
        let fault = if api == Api::Try && rng.chance(1, 2) { Act::Err(at) } else { Act::Panic(at, *rng.pick(&ALL_PAYLOAD)) };
        script[pos] = fault;
        if matches!(fault, Act::Err(_)) {
            api = Api::Try;
        }
        let err = if matches!(fault, Act::Err(_)) { [0, 0, 1, 1, 2, 3][rng.below(6)] } else { 0 };
        return Case { pair, len, extra_cap, api, script, err };
    }
    Case { pair, len, extra_cap, api, script, err: 0 }
}

/// Every (pair, len <= max_len, fault position, converted/abandoned pattern before it, fault kind).
fn enumerate_faults(max_len: usize, mut f: impl FnMut(Case)) {
    let mut faults: Vec<Act> = Vec::new();
    for at in ALL_AT_ERR {
        faults.push(Act::Err(at));
    }
    for at in ALL_AT_ERR {
        for p in ALL_PAYLOAD {
            faults.push(Act::Panic(at, p));
        }
    }
    for pair in pairs() {
        for len in 1..=max_len {
            for pos in 0..len {
                for pattern in 0..(1u32 << pos) {
                    for fault in &faults {
                        let mut script: Vec<Act> = (0..pos).map(|i| if pattern >> i & 1 == 1 { if i % 3 == 2 { Act::AbandonMutPrev } else { Act::Abandon } } else if i % 2 == 1 { Act::ConvMutPrev } else { Act::Conv }).collect();
                        script.push(*fault);
                        script.resize(len, Act::Conv);
                        for api in [Api::Try, Api::Plain] {
                            if api == Api::Plain && matches!(fault, Act::Err(_)) {
                                continue;
                            }
                            let err = if matches!(fault, Act::Err(_)) { ((len + pos + pattern as usize) % 4) as u8 } else { 0 };
                            f(Case { pair: pair.name.to_string(), len, extra_cap: (len + pos) % 2, api, script: script.clone(), err });
                        }
                    }
                }
            }
        }
    }
}

/// Every mismatching pair x every length <= max_len.
fn enumerate_mismatches(max_len: usize, mut f: impl FnMut(Case)) {
    for pair in mismatches() {
        for len in 0..=max_len {
            for extra_cap in [0, 3] {
                f(Case { pair: pair.name.to_string(), len, extra_cap, api: Api::Try, script: vec![], err: 0 });
            }
        }
    }
}

/// Every pattern of converted / converted-with-prev-mutation / abandoned / abandoned-with-prev-mutation for len <= max_len.
fn enumerate_free(max_len: usize, mut f: impl FnMut(Case)) {
    for pair in pairs() {
        for len in 0..=max_len {
            let n = 4usize.pow(len as u32);
            for pattern in 0..n {
                let mut p = pattern;
                let script: Vec<Act> = (0..len)
                    .map(|_| {
                        let a = [Act::Conv, Act::ConvMutPrev, Act::Abandon, Act::AbandonMutPrev][p % 4];
                        p /= 4;
                        a
                    })
                    .collect();
                for api in [Api::Try, Api::Plain] {
                    f(Case { pair: pair.name.to_string(), len, extra_cap: pattern % 2, api, script: script.clone(), err: 0 });
                }
            }
        }
    }
}

// ---------------------------------------------------------------------------------------------
// batch driver
// ---------------------------------------------------------------------------------------------

#[derive(Serialize, Default)]
struct BatchReport {
    mode: String,
    runs: u64,
    steps: u64,
    hash: String,
    ended: std::collections::BTreeMap<String, u64>,
    fault_fired: std::collections::BTreeMap<String, u64>,
    probes: std::collections::BTreeMap<String, u64>,
    pairs: std::collections::BTreeMap<String, u64>,
    distinct_local: u64,
    nontrivial_distinct_local: u64,
    kmv: Vec<u64>,
    samples: Vec<Case>,
    violations: Vec<ReportedViolation>,
}

#[derive(Serialize)]
struct ReportedViolation {
    run: Option<u64>,
    case: Case,
    violations: Vec<Violation>,
}

struct Acc {
    rep: BatchReport,
    hash: u64,
    seen: BTreeSet<u64>,
    seen_nontrivial: u64,
    max_violations: usize,
    trace: bool,
}

impl Acc {
    fn new(mode: &str) -> Self {
        Acc { rep: BatchReport { mode: mode.into(), ..Default::default() }, hash: FNV_INIT, seen: BTreeSet::new(), seen_nontrivial: 0, max_violations: 8, trace: false }
    }
    fn feed(&mut self, run: Option<u64>, case: Case, index: u64, progress: &mut simrt::Progress) -> bool {
        if self.trace {
            eprintln!("CASE {}", serde_json::to_string(&case).unwrap());
        }
        // crash supervision: the supervisor learns which case was running if the process dies
        progress.mark(index);
        let o = evaluate(&case);
        self.rep.runs += 1;
        self.rep.steps += o.steps;
        fold(&mut self.hash, o.hash);
        *self.rep.ended.entry(o.ended.to_string()).or_default() += 1;
        if let Some(f) = &o.fault_fired {
            *self.rep.fault_fired.entry(f.clone()).or_default() += 1;
        }
        for p in &o.probes {
            *self.rep.probes.entry(p.to_string()).or_default() += 1;
        }
        *self.rep.pairs.entry(case.pair.clone()).or_default() += 1;
        if self.seen.insert(case.shape_hash()) && case.nontrivial() {
            self.seen_nontrivial += 1;
        }
        if self.rep.samples.len() < 3 && case.len >= 2 && case.len <= 6 && (self.rep.runs % 7 == 1) {
            self.rep.samples.push(case.clone());
        }
        if !o.violations.is_empty() {
            self.rep.violations.push(ReportedViolation { run, case, violations: o.violations });
            if self.rep.violations.len() >= self.max_violations {
                return false;
            }
        }
        true
    }
    fn finish(mut self) -> BatchReport {
        self.rep.hash = format!("{:016x}", self.hash);
        self.rep.distinct_local = self.seen.len() as u64;
        self.rep.nontrivial_distinct_local = self.seen_nontrivial;
        self.rep.kmv = self.seen.iter().take(2048).copied().collect();
        self.rep
    }
}

fn arg<'a>(args: &'a [String], name: &str) -> Option<&'a str> {
    args.iter().position(|a| a == name).and_then(|i| args.get(i + 1)).map(|s| s.as_str())
}

fn parse_mode(s: &str) -> Mode {
    match s {
        "free" => Mode::Free,
        "fault" => Mode::Fault,
        "mismatch" => Mode::Mismatch,
        _ => {
            eprintln!("vecsim: unknown mode {}", s);
            std::process::exit(2)
        }
    }
}

fn main() {
    simrt::silence_panics();
    let args: Vec<String> = std::env::args().collect();
    let cmd = args.get(1).map(|s| s.as_str()).unwrap_or("");
    match cmd {
        // seeded batch: runs start..start+count of the stream (seed, mode)
        "batch" => {
            let seed: u64 = arg(&args, "--seed").unwrap().parse().unwrap();
            let start: u64 = arg(&args, "--start").unwrap_or("0").parse().unwrap();
            let count: u64 = arg(&args, "--count").unwrap().parse().unwrap();
            let mode = parse_mode(arg(&args, "--mode").unwrap());
            let mut progress = simrt::Progress::open(arg(&args, "--progress"));
            let mut acc = Acc::new(arg(&args, "--mode").unwrap());
            acc.trace = args.iter().any(|a| a == "--trace-cases");
            let max_len: usize = arg(&args, "--max-len").and_then(|s| s.parse().ok()).unwrap_or(usize::MAX);
            for run in start..start + count {
                let case = gen_case(seed, run, mode, max_len);
                if !acc.feed(Some(run), case, run, &mut progress) {
                    break;
                }
            }
            println!("{}", serde_json::to_string(&acc.finish()).unwrap());
        }
        // complete enumeration of the small space, split in `parts` interleaved slices
        "enum" => {
            let mode = parse_mode(arg(&args, "--mode").unwrap());
            let max_len: usize = arg(&args, "--max-len").unwrap().parse().unwrap();
            let part: u64 = arg(&args, "--part").unwrap_or("0").parse().unwrap();
            let parts: u64 = arg(&args, "--parts").unwrap_or("1").parse().unwrap();
            let mut progress = simrt::Progress::open(arg(&args, "--progress"));
            // --only i: evaluate nothing, print case number i of the enumeration (crash supervision)
            let only: Option<u64> = arg(&args, "--only").and_then(|s| s.parse().ok());
            let mut acc = Acc::new(&format!("enum-{}", arg(&args, "--mode").unwrap()));
            acc.max_violations = 8;
            let mut i = 0u64;
            let mut stop = false;
            let mut visit = |case: Case| {
                let mine = i % parts == part;
                let index = i;
                i += 1;
                if let Some(o) = only {
                    if o == index {
                        println!("{}", serde_json::to_string(&case).unwrap());
                    }
                    return;
                }
                if mine && !stop && !acc.feed(None, case, index, &mut progress) {
                    stop = true;
                }
            };
            match mode {
                Mode::Free => enumerate_free(max_len, &mut visit),
                Mode::Fault => enumerate_faults(max_len, &mut visit),
                Mode::Mismatch => enumerate_mismatches(max_len, &mut visit),
            }
            if only.is_none() {
                println!("{}", serde_json::to_string(&acc.finish()).unwrap());
            }
        }
        // one explicit case (replay / minimisation): exit 0 = held, 1 = violated
        "case" => {
            let text = match arg(&args, "--file") {
                Some(f) => std::fs::read_to_string(f).expect("case file"),
                None => arg(&args, "--json").expect("--file or --json").to_string(),
            };
            let v: serde_json::Value = serde_json::from_str(&text).expect("json");
            let case: Case = serde_json::from_value(v.get("case").cloned().unwrap_or(v)).expect("case");
            let o = evaluate(&case);
            println!("{}", serde_json::to_string(&serde_json::json!({"violations": o.violations, "ended": o.ended, "hash": format!("{:016x}", o.hash)})).unwrap());
            std::process::exit(if o.violations.is_empty() { 0 } else { 1 });
        }
        "gen" => {
            // print the case of (seed, mode, run) without running it
            let seed: u64 = arg(&args, "--seed").unwrap().parse().unwrap();
            let run: u64 = arg(&args, "--run").unwrap().parse().unwrap();
            let mode = parse_mode(arg(&args, "--mode").unwrap());
            let max_len: usize = arg(&args, "--max-len").and_then(|s| s.parse().ok()).unwrap_or(usize::MAX);
            println!("{}", serde_json::to_string(&gen_case(seed, run, mode, max_len)).unwrap());
        }
        "catalogue" => {
            for p in pairs() {
                println!("pair {} : {}", p.name, p.desc);
            }
            for p in mismatches() {
                println!("mismatch {} : {}", p.name, p.desc);
            }
        }
        _ => {
            eprintln!("usage: vecsim batch|enum|case|gen|catalogue ...");
            std::process::exit(2);
        }
    }
}
