//! Generates the record definitions of this simulator build with the real truc builder and
//! generator (exactly the way a user's build script does) plus their glue modules.
//!
//! RECSIM_SEED   seed of the definition swarm (default 20260926)
//! RECSIM_SWARM  number of swarm definitions (default 6)
//! RECSIM_CORPUS 0 to leave the directed corpus out
//! RECSIM_CAPS   number of capacity instantiations per definition, 1..4 (default 2)

use std::fmt::Write as _;
use std::{env, fs, path::PathBuf};

fn main() {
    for v in ["RECSIM_SEED", "RECSIM_SWARM", "RECSIM_CORPUS", "RECSIM_CAPS", "RECSIM_PLANS", "RECSIM_EXCLUDE"] {
        println!("cargo:rerun-if-env-changed={}", v);
    }
    let seed: u64 = env::var("RECSIM_SEED").ok().and_then(|s| s.parse().ok()).unwrap_or(20260926);
    let n_swarm: usize = env::var("RECSIM_SWARM").ok().and_then(|s| s.parse().ok()).unwrap_or(6);
    let corpus = env::var("RECSIM_CORPUS").map(|s| s != "0").unwrap_or(true);
    let n_caps: usize = env::var("RECSIM_CAPS").ok().and_then(|s| s.parse().ok()).unwrap_or(2).clamp(1, 4);
    let out_dir = PathBuf::from(env::var("OUT_DIR").unwrap());

    // explicit plans (replay of a recorded definition) take precedence over the swarm
    let plans: Vec<simgen::Plan> = match env::var("RECSIM_PLANS") {
        Ok(path) if !path.is_empty() => {
            println!("cargo:rerun-if-changed={}", path);
            serde_json::from_str(&fs::read_to_string(&path).expect("RECSIM_PLANS file")).expect("plans json")
        }
        _ => simgen::definition_set(seed, n_swarm, corpus, &simgen::SwarmOpts::default()),
    };

    // definitions whose generated module was found not to compile (reported by the driver after a failed
    // build): left out and counted as pipeline failures
    let exclude: Vec<usize> = env::var("RECSIM_EXCLUDE").unwrap_or_default().split(',').filter_map(|s| s.trim().parse().ok()).collect();
    let mut registry = String::new();
    let mut mods = String::new();
    let mut failures = Vec::new();
    let mut layouts = String::new();
    for (i, plan) in plans.iter().enumerate() {
        let modname = format!("def_{:03}", i);
        if exclude.contains(&i) {
            failures.push(format!("{}: generated module does not compile", plan.name));
            continue;
        }
        // a definition the pipeline cannot build or generate is skipped and counted (C13 is not
        // decided here)
        let built = match std::panic::catch_unwind(|| simgen::build(plan)) {
            Ok(Ok(b)) => b,
            Ok(Err(e)) => {
                failures.push(format!("{}: {}", plan.name, e));
                continue;
            }
            Err(_) => {
                failures.push(format!("{}: builder panicked", plan.name));
                continue;
            }
        };
        let generated = match std::panic::catch_unwind(std::panic::AssertUnwindSafe(|| simgen::generate_module(&built))) {
            Ok(g) => g,
            Err(_) => {
                failures.push(format!("{}: generator panicked", plan.name));
                continue;
            }
        };
        let _ = writeln!(layouts, "## {} ({})\n{}", modname, plan.name, simgen::layout_table(&built));
        fs::write(out_dir.join(format!("{}.rs", modname)), simgen::glue::emit_definition_module(&built, &generated)).unwrap();
        let _ = writeln!(mods, "pub mod {} {{ include!(concat!(env!(\"OUT_DIR\"), \"/{}.rs\")); }}", modname, modname);
        let caps = ["0", "1", "8", "24"];
        // the exact capacity always; the others rotate with the definition index
        let mut chosen = vec![0usize];
        for k in 1..n_caps {
            chosen.push(1 + (i + k - 1) % 3);
        }
        for c in chosen {
            let _ = writeln!(
                registry,
                "    simrt::engine::entry::<{m}::glue::R<{{ {m}::gen::MAX_SIZE + {c} }}>>({name:?}, \"cap+{c}\"),",
                m = modname,
                c = caps[c],
                name = plan.name
            );
        }
    }
    let mut top = String::new();
    top.push_str(&mods);
    let _ = writeln!(top, "pub fn registry() -> Vec<simrt::engine::Entry> {{\n    vec![\n{}    ]\n}}", registry);
    let _ = writeln!(top, "pub const PIPELINE_FAILURES: &[&str] = &{:?};", failures);
    let _ = writeln!(top, "pub const DEFINITION_SEED: u64 = {};", seed);
    fs::write(out_dir.join("registry.rs"), top).unwrap();
    fs::write(out_dir.join("layouts.txt"), layouts).unwrap();
    fs::write(out_dir.join("plans.json"), serde_json::to_string_pretty(&plans).unwrap()).unwrap();
    println!("cargo:rustc-env=RECSIM_OUT_DIR={}", out_dir.display());
}
