//! Field types for SIM-T: stubs with chosen `Send` / `Sync` properties whose misuse across
//! threads is *observable* under shuttle's scheduler without real undefined behaviour (the shared
//! state is a shuttle atomic accessed with a load / yield / store sequence, exactly the shape of
//! the non-atomic reference count of `Rc`).

use shuttle::sync::atomic::{AtomicUsize, Ordering};
use std::marker::PhantomData;

pub struct Shared {
    pub count: AtomicUsize,
}

/// Like `Rc`: neither `Send` nor `Sync`; `clone` bumps a shared count non-atomically.
pub struct RacyRc {
    shared: &'static Shared,
    _not_send_sync: PhantomData<*mut ()>,
}

impl RacyRc {
    pub fn new() -> Self {
        let shared: &'static Shared = Box::leak(Box::new(Shared { count: AtomicUsize::new(1) }));
        RacyRc { shared, _not_send_sync: PhantomData }
    }
    pub fn count(&self) -> usize {
        self.shared.count.load(Ordering::SeqCst)
    }
    pub fn shared(&self) -> &'static Shared {
        self.shared
    }
}

impl Default for RacyRc {
    fn default() -> Self {
        Self::new()
    }
}

impl Clone for RacyRc {
    fn clone(&self) -> Self {
        // read - (another thread may run here) - write: a lost update if two threads do this at once
        let c = self.shared.count.load(Ordering::SeqCst);
        shuttle::thread::sleep(std::time::Duration::from_millis(0));
        self.shared.count.store(c + 1, Ordering::SeqCst);
        RacyRc { shared: self.shared, _not_send_sync: PhantomData }
    }
}

/// Like `Cell<usize>`: `Send` but not `Sync`; `bump` through a shared reference is a read-modify-write.
pub struct RacyCell {
    value: AtomicUsize,
    _not_sync: PhantomData<std::cell::Cell<()>>,
}

impl RacyCell {
    pub fn new(v: usize) -> Self {
        RacyCell { value: AtomicUsize::new(v), _not_sync: PhantomData }
    }
    pub fn bump(&self) {
        let c = self.value.load(Ordering::SeqCst);
        shuttle::thread::sleep(std::time::Duration::from_millis(0));
        self.value.store(c + 1, Ordering::SeqCst);
    }
    pub fn get(&self) -> usize {
        self.value.load(Ordering::SeqCst)
    }
}

impl Clone for RacyCell {
    fn clone(&self) -> Self {
        RacyCell::new(self.get())
    }
}

/// A raw pointer field: neither `Send` nor `Sync`.
#[derive(Clone, Copy)]
pub struct RawPtrField(pub *mut u8);

/// `Sync` but not `Send` (like a mutex guard).
#[derive(Clone)]
pub struct SyncNotSend {
    pub v: u32,
    _guard_like: PhantomData<std::sync::MutexGuard<'static, ()>>,
}

impl SyncNotSend {
    pub fn new(v: u32) -> Self {
        SyncNotSend { v, _guard_like: PhantomData }
    }
}

/// `Sync` but not `Send`, and `Copy` (so that it may be declared as allowed to stay uninitialised).
#[derive(Clone, Copy)]
pub struct SyncNotSendCopy {
    pub v: u32,
    _not_send: PhantomData<*const ()>,
}
unsafe impl Sync for SyncNotSendCopy {}

/// Zero-size and neither `Send` nor `Sync` (like `PhantomData<Rc<()>>`).
#[derive(Clone, Copy)]
pub struct ZstNotSendSync(PhantomData<*mut ()>);

/// Zero-size, `Send` but not `Sync` (like `PhantomData<Cell<u8>>`).
#[derive(Clone, Copy)]
pub struct ZstNotSync(PhantomData<std::cell::Cell<u8>>);

/// Control: `Send + Sync`.
#[derive(Clone)]
pub struct ArcCounter(pub std::sync::Arc<std::sync::atomic::AtomicUsize>);

/// Asserts `Send` for the schedule search only: the scenario is *run* only for record types that
/// the compile gate showed to be `Send` / `Sync` in safe code although a field is not.
pub struct ForceSend<T>(pub T);
unsafe impl<T> Send for ForceSend<T> {}
unsafe impl<T> Sync for ForceSend<T> {}
